#!/bin/bash
# usage: confirm_mutants.sh <worktree> <demo-prefix> <n>
# For each mutant_i.diff in the worktree: apply, run the repository's test suite
# (workspace, guard off), run the demo, revert, run the demo again.
wt=$1; prefix=$2; n=$3
cd $wt || exit 2
export CARGO_TARGET_DIR=$wt/target
for i in $(seq 1 $n); do
  [ -f mutant_$i.diff ] || continue
  echo "=== mutant $i"
  git checkout -- crates 2>/dev/null
  git apply mutant_$i.diff || { echo "APPLY FAILED"; continue; }
  # existing suite without the demo files (they live under tests/ of the crate)
  mkdir -p /tmp/demo-stash-$$ && mv crates/steel-core/tests/${prefix}_*.rs /tmp/demo-stash-$$/ 2>/dev/null
  cargo nextest run --workspace --no-fail-fast --tool-config-file pb:/w/lib/nextest.toml --profile pb --test-threads 8 --offline > $wt/suite_$i.log 2>&1
  grep "Summary" $wt/suite_$i.log
  grep "FAIL \[" $wt/suite_$i.log | awk '{print $NF}' | sort -u | tr '\n' ' '; echo
  mv /tmp/demo-stash-$$/*.rs crates/steel-core/tests/ 2>/dev/null
  echo "--- demo with change"
  cargo test -p steel-core --offline $FEATURES --test ${prefix}_$i 2>&1 | grep -E "test result|observed|panicked" | head -5
  git checkout -- crates
  echo "--- demo without change"
  cargo test -p steel-core --offline $FEATURES --test ${prefix}_$i 2>&1 | grep -E "test result|observed|panicked" | head -5
done
echo DONE
