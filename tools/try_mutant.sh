#!/bin/bash
# usage: try_mutant.sh <diff> <PROPERTY> [check args...]
# applies the diff to /repo, runs the check, reverts /repo (always).
diff=$(realpath "$1"); prop=$2; shift 2
cd /repo || exit 2
if ! git diff --quiet; then echo "repo not clean"; exit 2; fi
git apply "$diff" || { echo "patch does not apply"; exit 2; }
cd /verif
VERIF_EVIDENCE=/tmp/ev-mutants VERIF_REPLAYS=/verif/replays-mutants ./check "$prop" "$@" > /tmp/try_mutant.out 2>&1
code=$?
git -C /repo checkout -- .
grep -E "^\[|VIOLATION|signature|detail|HARNESS|KNOWN" /tmp/try_mutant.out | cut -c1-260 | head -30
echo "exit=$code"
exit $code
