#!/usr/bin/env python3
"""Regenerates /verif/MANIFEST.json from the table below and validates it."""
import json, subprocess, sys
props=[json.loads(l) for l in open('/verif/properties.jsonl')]
ids=[p['id'] for p in props]
TECH="deterministic simulation with fault injection: seeded scheduler/fault injector over the real code, fork per run, reference-model oracle, minimised replay files"
NA={
 'C01':'pure function of the program text: nothing to schedule, delay, drop or crash; deciding it needs an independent evaluator over generated programs (differential testing), a different technique (DESIGN.md §7)',
 'C09':'per-program resource invariant (frame depth constant at the loop head) with no interleaving, clock or fault in it; the deep-recursion clause is an input-magnitude test (DESIGN.md §7)',
 'C10':'pure function of operand tuples and call shape; no schedule, clock, fault or history (DESIGN.md §7)',
 'C11':'pure functions of values and operation sequences; the schedule-dependent sharing aspect is C03 (DESIGN.md §7)',
 'C12':'pure function of the text (DESIGN.md §7)',
 'C13':'pure function of the program (DESIGN.md §7)',
 'C18':'a statement about value shapes (the shape is the input); its schedule-dependent neighbours are covered in C19/C04/C05 (DESIGN.md §7)',
}
CHECKS={
 'C05':("exploration","seeded search over interleavings of the real steel-rc count-word accesses (a scheduling decision before every access) for generated histories of create/clone/drop/move/unique-access/unwrap/exit/merge by 2-4 threads, checked against a handle-count model (destroyed exactly once, never while a handle exists, unique access only with count 1, reads intact); sampling, not proof",
        "sequentially consistent interleavings at access granularity; weak-memory outcomes and thread-local address reuse are not explored; freed boxes are quarantined so a use after destroy is observed","DESIGN.md §5 C05"),
 'C06':("exploration","seeded search over evaluation histories of 5-400 steps on one engine (define / define function reading and calling earlier globals / redefine / set! / multi-form programs / failing programs at compile time and at run time with definitions before and after the failing form / host register_value + update_value / collections) with the global-slot recycling threshold randomised (1..100) so recycling happens inside short histories, JIT on/off; after every step every live function is called and every live variable read and compared with a binding model",
        "module requires are exercised by C14; references inside one evaluation follow the generator's ordering rule (DESIGN.md §5 C06)","DESIGN.md §5 C06"),
 'C07':("fault_enumeration","enumeration of fault points over a corpus of 26 programs (plain code, argument position, let bodies, map/fold/transduce/sort/for-each callbacks, dynamic-wind, handlers, escaping and re-entered continuations, apply, macro use, deep recursion, mutable state, parameterize, host calls in each of these contexts) in both tiers: an interrupt raised at every dispatch step, a host-function error at every host call, a compile-time and a run-time failing form at every form position; each run continues with 0-3 further faulted evaluations on the same engine; after every evaluation: it returned (panic/crash = violation), stacks empty, probe program and earlier definitions and mutable state intact, clean re-run gives the program's value",
        "decides the second sentence of C07 and the fault-history part of its quantifier; arbitrary source text and arbitrary built-in argument tuples are pure functions of the input and are not decided here (DESIGN.md §5 C07)","DESIGN.md §5 C07"),
 'C19':("exploration","seeded search over allocation histories with a bounded live set: 2-30 blocks of garbage (acyclic, self-cycles, rings of 2-9 boxes, rings through box/vector/struct field, self-capturing closures, storage held only by a dead continuation, a finished handler or shadowed globals), live-set changes and weak boxes, forced collections at rate {0,1/64,1/8}, heap growth chunk and recycling threshold randomised, JIT on/off; after every block and two full collections at a quiescent point: live slots <= warm-up baseline + model live set + a constant slack (24 slots; a leak grows by >= 40 slots per batch), free-slot accounting == mark bits, live data reads back, weak boxes of dropped targets are cleared",
        "bounded-residue oracle (a few slots may stay referenced from stale temporaries); single script thread; storage held only by shadowed globals is expected back once the recycling threshold has been passed","DESIGN.md §5 C19"),
 'C15':("exploration","seeded search over interleavings of 2-8 real script threads (main + spawn-native-thread) running generated mixes of computation, allocation, set!/checked reads of shared globals, channel sends, mutex sections, collections, thread-local storage and nested spawns, under a token scheduler that decides at every instruction dispatch and inside every window of the stop-the-world handshake (publish, after finish, before retract, stop/resume, scan begin/end, heap lock taken), with forced full collections up to every allocation, JIT on/off; monitors: no thread runs while its stack or global table is being read or replaced by a stopper (scan-overlap), every global's final value is some thread's last write and every read returns a written value, host panics",
        "sequentially consistent interleavings at hook granularity (weak-memory outcomes of the Relaxed accesses are not modelled); native code is preempted only at hooked helpers and where it re-enters the dispatch loop; the marker pool runs unscheduled while all script threads are stopped or wait for the token","DESIGN.md §5 C15/C16"),
 'C16':("exploration","same simulated runs as C15, biased towards blocking (channels, joins, mutexes, blocking calls through map): the scheduler turns every blocking call into a polled wait, so a state in which every live thread waits and stays waiting over repeated confirmation rounds is reported as a deadlock with the blocked sites and which of the blocked threads were not published; a step budget bounds livelock; join results, per-sender channel order and mutex-protected counters are compared with the generator's model",
        "programs are deadlock-free at script level by construction (matching send/receive counts, acyclic joins), so every deadlock is the runtime's; same scheduling assumptions as C15","DESIGN.md §5 C15/C16"),
 'C17':("fault_enumeration","enumeration of interrupt arrival points: 25 non-terminating program shapes (tail and non-tail loops, primitive-only and allocating loops, loops inside map/transduce/for-each/foldl/apply/sort callbacks, in and under handlers, in every dynamic-wind thunk, a continuation generator, while/struct/hash/string loops) x both tiers x the interrupt request raised at every dispatch step of a 240-step window (further windows in the thorough tier); oracle: the evaluation returns an error within 1000 further dispatch steps, then resume(), empty stacks, a correct probe evaluation, and a second interrupt works; a run that does not return in real time is a violation",
        "the request is the public ThreadStateController::interrupt raised from the dispatch hook; native code that never re-enters the dispatch loop would only be caught by the real-time watchdog; the timer thread of run_with_timeout is not simulated","DESIGN.md §5 C17"),
 'C04':("exploration","seeded search over collection schedules (a full collection forced at PRNG-chosen allocations, up to every allocation, plus explicit requests) for generated programs that park the only reference to boxes / mutable vectors / mutable struct fields / assigned captured variables in one of 23 root classes, churn the allocator and read back; oracle = generator-known contents + stale-slot monitor + free-slot accounting; JIT on/off and heap growth chunk are swarm dimensions",
        "collections are forced only where the runtime itself may collect; one script thread (threaded roots are exercised in the C15/C16 runs); the marker pool's internal races are not scheduled","DESIGN.md §5 C04"),
}
m={"version":1,"setup_cmd":"./setup.sh",
 "hooks":{"guard":"steel_verif",
  "enable":"rustflags --cfg steel_verif in /verif/harness/.cargo/config.toml; the harness crate path-depends on /repo/crates/steel-core and /repo/crates/steel-rc and installs function-pointer hook tables (steel_rc::verif, steel::verif) at run time; with no table installed every hook is a no-op",
  "baseline_off_cmd":"cd /repo && cargo nextest run --workspace --no-fail-fast --tool-config-file pb:/w/lib/nextest.toml --profile pb --test-threads 8 --offline || cargo test --workspace --no-fail-fast --offline",
  "source_commits":subprocess.run("git -C /repo log --format=%h --grep='^verif hooks'",shell=True,capture_output=True,text=True).stdout.split(),
  "add_only":True},
 "engines":[{"name":"steelsim","path":"/verif/harness","serves_properties":sorted(CHECKS),"kind_free_text":"deterministic simulator: seeded token scheduler over real OS threads, fork-per-run from a zygote that holds prototype engines, fault injector (forced collections, interrupts at chosen dispatch steps, host errors, knobs), reference-model oracles, delta-debugging minimiser and replay"}],
 "checks":[],
 "notes":"See DESIGN.md. known_findings.json lists recorded genuine defects (KNOWN-FINDING lines) and repaired ones (fix: commits in /repo). ./check <ID> rebuilds the harness against /repo's working tree first.",
 "not_applicable":[]}
for i in ids:
    if i in CHECKS:
        cat,text,note,ref=CHECKS[i]
        m["checks"].append({"property_id":i,"quick_cmd":f"./check {i} --tier quick","thorough_cmd":f"./check {i} --tier thorough","evidence_file":f"/verif/evidence/{i}.json","replay_cmd_template":"./check replay {path}","engine":"steelsim",
          "level_claimed":{"category":cat,"text":text,"design_ref":ref},"level_note":note,"technique":TECH})
    else:
        m["not_applicable"].append({"property_id":i,"reason":NA.get(i,"not claimed yet: the check for this property is still being built (DESIGN.md §5, §9)")})
json.dump(m,open('/verif/MANIFEST.json','w'),indent=1)
import jsonschema
jsonschema.validate(m,json.load(open('/root/.vp/MANIFEST.schema.json')))
print("MANIFEST ok:",sorted(CHECKS))
