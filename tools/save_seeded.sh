#!/bin/bash
# usage: save_seeded.sh <id> <diff> <demo file> <meta json text>
id=$1; diff=$2; demo=$3; meta=$4
mkdir -p /verif/seeded/$id
cp "$diff" /verif/seeded/$id/patch.diff
[ -f "$demo" ] && cp "$demo" /verif/seeded/$id/demo.rs
printf '%s\n' "$meta" > /verif/seeded/$id/meta.json
python3 -c "import json,sys; json.load(open('/verif/seeded/$id/meta.json'))" && echo saved $id
