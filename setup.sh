#!/bin/bash
# Build everything the checks need, offline, from files on disk only.
set -e
cd /verif
export CARGO_NET_OFFLINE=true
gcc -O2 -shared -fPIC -o shim/detrand.so shim/detrand.c
cp /repo/Cargo.lock harness/Cargo.lock
cd harness
cargo build --offline
echo "setup ok"
