//! C17 (third scenario) — interrupt requests arriving at arbitrary times.
//!
//! The first C17 scenario raises the request at dispatch steps of the
//! evaluating thread. Here the request arrives at *any* hook event of *any*
//! simulated thread ("tick"): while the evaluating thread is inside a world
//! stop of its own (a top-level `define` or a `set!` of a global, a full
//! collection), while it enters or leaves a safepoint, while another script
//! thread has stopped the world and the evaluating thread is parked, while it
//! is blocked for the heap lock ... The program is a few top-level definitions
//! followed by a non-terminating shape (some of which assign globals or
//! allocate, so that the evaluating thread keeps stopping the world itself),
//! with 0-2 other script threads allocating and assigning globals.
//!
//! Oracle: `Engine::run` returns an error within BOUND dispatch steps of the
//! evaluating thread after the request (a run that uses up its step budget with
//! the request raised is "interrupt lost"); after `resume()` the stacks are
//! empty, a probe evaluates, and the other threads can be joined.

use crate::report;
use crate::rng::Rng;
use crate::runner::{Scenario, Spec};
use crate::sched;
use crate::vmh;
use serde_json::{json, Value};
use std::sync::atomic::Ordering;
use std::sync::Mutex;

pub struct Arrival {
    pub prop: &'static str,
    pub label: &'static str,
}

pub static ARRIVAL_C17: Arrival = Arrival { prop: "C17", label: "c17-arrival" };
pub static ARRIVAL_C15: Arrival = Arrival { prop: "C15", label: "c15-interrupt-arrival" };

const PRELUDE: &str = r#"
(define g0 0)
(define g1 0)
(define (spin) (spin))
(define (count-up n) (count-up (+ n 1)))
(define (loop-n n) (if (= n 0) 0 (loop-n (- n 1))))
(define (set-loop i) (set! g0 i) (set-loop (+ i 1)))
(define (set-loop2 i) (set! g0 i) (loop-n 3) (set! g1 i) (set-loop2 (+ i 1)))
(define (alloc-loop acc) (alloc-loop (cons (box 1) '())))
(define (valloc-loop i) (mutable-vector i (box i)) (valloc-loop (+ i 1)))
(define (gc-loop i) (#%gc-collect) (gc-loop (+ i 1)))
(define (work n) (let lp ((i 0) (acc 0)) (if (= i n) acc (lp (+ i 1) (+ acc i)))))
(define (alloc n) (let lp ((i 0) (acc '())) (if (= i n) (apply + (map unbox acc)) (lp (+ i 1) (cons (box i) acc)))))
(define ths '())
"#;

const SHAPES: &[(&str, &str)] = &[
    ("self-tail-loop", "(spin)"),
    ("tail-loop-with-arg", "(count-up 0)"),
    ("global-assigning-loop", "(set-loop 0)"),
    ("two-global-assigning-loop", "(set-loop2 0)"),
    ("allocating-loop", "(alloc-loop '())"),
    ("vector-allocating-loop", "(valloc-loop 0)"),
    ("collecting-loop", "(gc-loop 0)"),
    ("loop-in-map-callback", "(map (lambda (x) (set-loop 0)) (list 1 2 3))"),
];

const BOUND: u64 = 1000;

static WHERE: Mutex<String> = Mutex::new(String::new());

fn where_am_i() -> String {
    match WHERE.lock() {
        Ok(g) => g.clone(),
        Err(p) => p.into_inner().clone(),
    }
}

fn on_stop(s: sched::Stop) -> ! {
    let w = where_am_i();
    let fired = vmh::HOST_INTERRUPT_MAIN_DISPATCH.load(Ordering::SeqCst) != u64::MAX;
    let phase = if vmh::HOST_INTERRUPT_DURING_STOP.load(Ordering::SeqCst) { "during-world-stop" } else { "outside-world-stop" };
    let site = steel::verif::site_name(vmh::HOST_INTERRUPT_SITE.load(Ordering::SeqCst) as u32);
    match s {
        sched::Stop::Budget(d) => {
            if fired && w.contains("/main") {
                report::violation(
                    &format!("C17/arrival/{}/interrupt-lost/{}", w, phase),
                    format!(
                        "the request was raised (at a {} event, {}) but the evaluation ran on until the step budget was used up; {} dispatch steps of the evaluating thread since the request; threads: {}",
                        site,
                        phase,
                        vmh::MAIN_DISPATCHES.load(Ordering::SeqCst).saturating_sub(vmh::HOST_INTERRUPT_MAIN_DISPATCH.load(Ordering::SeqCst)),
                        d
                    ),
                )
            }
            report::harness_error(format!("step budget exceeded ({}, request raised: {}): {}", w, fired, d))
        }
        sched::Stop::Deadlock(d) => report::violation(
            &format!("C16/arrival/{}/deadlock/{}", w, if fired { phase } else { "no-request" }),
            format!("no simulated thread can make progress (request raised: {} at {}): {}", fired, site, d),
        ),
        sched::Stop::ReplayDiverged(d) => report::stop_is_harness_error(sched::Stop::ReplayDiverged(d)),
    }
}

fn gen(seed: u64, index: u64, thorough: bool) -> Value {
    let mut r = Rng::derive(seed, index, 1);
    let jit = r.chance(1, 2);
    let nthreads = *r.pick(&[0u64, 0, 1, 1, 2]);
    let mut threads = Vec::new();
    for _ in 0..nthreads {
        let nops = r.range(2, 6);
        let mut ops = Vec::new();
        for _ in 0..nops {
            ops.push(match r.below(5) {
                0 => json!(["work", r.range(5, 40)]),
                1 | 2 => json!(["alloc", r.range(3, 30)]),
                3 => json!(["set", r.below(2), r.range(1, 1000)]),
                _ => json!(["gc", 0]),
            });
        }
        threads.push(json!(ops));
    }
    let pre = r.below(4);
    let shape = r.below(SHAPES.len() as u64);
    let gc = *r.pick(&[(0u64, 1u64), (0, 1), (1, 8), (1, 2), (1, 1)]);
    let window = if nthreads == 0 { 500 } else { 2500 };
    let window = if thorough { window * 3 } else { window };
    let k = r.below(window);
    json!({"jit": jit, "threads": threads, "pre": pre, "shape": shape, "gc": [gc.0, gc.1], "k": k})
}

impl Scenario for Arrival {
    fn name(&self) -> &'static str {
        self.label
    }
    fn property(&self) -> &'static str {
        self.prop
    }
    fn setup(&self) {
        vmh::build_prototypes(true, true);
    }
    fn default_runs(&self, thorough: bool) -> u64 {
        if thorough { 300_000 } else { 4_000 }
    }
    fn timeout_ms(&self) -> u64 {
        30_000
    }
    fn shrink(&self, w: &Value) -> Vec<Value> {
        let mut out = Vec::new();
        let threads = w["threads"].as_array().cloned().unwrap_or_default();
        for i in 0..threads.len() {
            let mut t = threads.clone();
            t.remove(i);
            let mut v = w.clone();
            v["threads"] = json!(t);
            out.push(v);
        }
        for i in 0..threads.len() {
            let ops = threads[i].as_array().cloned().unwrap_or_default();
            for j in 0..ops.len() {
                let mut o = ops.clone();
                o.remove(j);
                let mut t = threads.clone();
                t[i] = json!(o);
                let mut v = w.clone();
                v["threads"] = json!(t);
                out.push(v);
            }
        }
        if w["pre"].as_u64().unwrap_or(0) > 0 {
            let mut v = w.clone();
            v["pre"] = json!(w["pre"].as_u64().unwrap() - 1);
            out.push(v);
        }
        if w["gc"][0].as_u64().unwrap_or(0) > 0 {
            let mut v = w.clone();
            v["gc"] = json!([0, 1]);
            out.push(v);
        }
        if w["shape"].as_u64().unwrap_or(0) > 0 {
            let mut v = w.clone();
            v["shape"] = json!(0);
            out.push(v);
        }
        if w["jit"] == true {
            let mut v = w.clone();
            v["jit"] = json!(false);
            out.push(v);
        }
        out
    }

    fn child(&self, spec: &Spec) {
        let w = if spec.overrides.is_null() { gen(spec.seed, spec.index, spec.tier_thorough) } else { spec.overrides.clone() };
        report::set_workload(w.clone());
        if spec.gen_only {
            return;
        }
        let jit = w["jit"].as_bool().unwrap_or(false);
        let threads = w["threads"].as_array().cloned().unwrap_or_default();
        let shape = SHAPES[w["shape"].as_u64().unwrap_or(0) as usize % SHAPES.len()];
        let k = w["k"].as_u64().unwrap_or(0);
        let tier = if jit { "jit" } else { "nojit" };
        let mode = if threads.is_empty() { "single" } else { "threads" };
        vmh::FAIR_ONLY.store(true, Ordering::SeqCst);
        let mut faults = vmh::default_faults(spec.seed, spec.index);
        faults.heap_chunk = 256;
        faults.gc_num = w["gc"][0].as_u64().unwrap_or(0);
        faults.gc_den = w["gc"][1].as_u64().unwrap_or(1).max(1);
        let mut engine = vmh::start(
            spec,
            vmh::VmOptions {
                property: if self.prop == "C15" { "C15" } else { "C17" },
                jit,
                faults,
                yield_at_dispatch: false,
                max_steps: 40_000 + k,
                expected_steps: 5000,
                on_stop,
                panic_class: |m| vmh::panic_signature("C17/arrival", m),
            },
        );
        vmh::set_stale_is_violation(true);
        *WHERE.lock().unwrap() = format!("{}/{}/setup", tier, mode);
        if let Err(e) = vmh::eval(&mut engine, PRELUDE) {
            report::harness_error(format!("prelude failed: {}", e));
        }
        vmh::set_yield_at_dispatch(true);
        // the other script threads (not interrupted: the request targets the engine's evaluation)
        let mut expect: Vec<String> = Vec::new();
        if !threads.is_empty() {
            let mut src = String::from("(set! ths (list");
            for t in &threads {
                let mut body = String::new();
                let mut sum: i64 = 0;
                for op in t.as_array().into_iter().flatten() {
                    let a = op[1].as_i64().unwrap_or(1);
                    match op[0].as_str().unwrap_or("") {
                        "work" => {
                            body.push_str(&format!("(set! acc (+ acc (work {})))", a));
                            sum += a * (a - 1) / 2;
                        }
                        "alloc" => {
                            body.push_str(&format!("(set! acc (+ acc (alloc {})))", a));
                            sum += a * (a - 1) / 2;
                        }
                        "set" => body.push_str(&format!("(set! g{} {})", a % 2, op[2])),
                        _ => body.push_str("(#%gc-collect)"),
                    }
                }
                src.push_str(&format!(" (spawn-native-thread (lambda () (let ((acc 0)) {} acc)))", body));
                expect.push(sum.to_string());
            }
            src.push_str("))");
            if let Err(e) = vmh::eval(&mut engine, &src) {
                report::harness_error(format!("spawning failed: {}", e));
            }
        }
        // the evaluation that gets interrupted
        let mut main_src = String::new();
        for i in 0..w["pre"].as_u64().unwrap_or(0) {
            main_src.push_str(&format!("(define pre{} (list {} (box {})))\n", i, i, i));
        }
        main_src.push_str(shape.1);
        *WHERE.lock().unwrap() = format!("{}/{}/main", tier, mode);
        vmh::set_context(&format!("{}/{}", tier, mode));
        vmh::MAIN_DISPATCHES.store(0, Ordering::SeqCst);
        vmh::HOST_TICKS.store(0, Ordering::SeqCst);
        vmh::HOST_INTERRUPT_MAIN_DISPATCH.store(u64::MAX, Ordering::SeqCst);
        vmh::HOST_INTERRUPT_AT.store(k, Ordering::SeqCst);
        let res = vmh::eval(&mut engine, &main_src);
        vmh::HOST_INTERRUPT_AT.store(u64::MAX, Ordering::SeqCst);
        let at = vmh::HOST_INTERRUPT_MAIN_DISPATCH.load(Ordering::SeqCst);
        let end = vmh::MAIN_DISPATCHES.load(Ordering::SeqCst);
        report::set_nontrivial(true);
        let phase = if vmh::HOST_INTERRUPT_DURING_STOP.load(Ordering::SeqCst) { "during-world-stop" } else { "outside-world-stop" };
        match res {
            Ok(v) => report::violation(
                &format!("C17/arrival/{}/{}/non-terminating-shape-returned", tier, mode),
                format!("{} returned {:?}", shape.1, v),
            ),
            Err(e) => {
                if at == u64::MAX {
                    report::violation(
                        &format!("C17/arrival/{}/{}/failed-without-request", tier, mode),
                        format!("{} failed before the request was raised: {}", shape.1, e.chars().take(120).collect::<String>()),
                    );
                }
                if !e.contains("Interrupted") {
                    report::violation(
                        &format!("C17/arrival/{}/{}/other-error-after-request/{}", tier, mode, phase),
                        format!("{} ended with {}", shape.1, e.chars().take(160).collect::<String>()),
                    );
                }
                let lag = end.saturating_sub(at);
                report::set_extra("steps_after_interrupt", json!(lag));
                if lag > BOUND {
                    report::violation(
                        &format!("C17/arrival/{}/{}/stopped-too-late/{}", tier, mode, phase),
                        format!("{} dispatch steps of the evaluating thread after the request (bound {})", lag, BOUND),
                    );
                }
                report::probe(if phase == "during-world-stop" { "stopped-after-request-during-world-stop" } else { "stopped-after-request" });
            }
        }
        // resume and use the engine normally, with the other threads still running
        *WHERE.lock().unwrap() = format!("{}/{}/after", tier, mode);
        engine.get_thread_state_controller().resume();
        let st = engine.verif_stack_state();
        if st.stack != 0 || st.frames != 0 {
            report::violation(&format!("C17/arrival/{}/{}/stack-residue", tier, mode), format!("{:?}", st));
        }
        match vmh::eval(&mut engine, "(define probe-z 5)\n(+ probe-z (loop-n 3))") {
            Ok(v) if v.last().map(|s| s.as_str()) == Some("5") => {}
            other => report::violation(
                &format!("C17/arrival/{}/{}/engine-unusable-after-resume/{}", tier, mode, phase),
                format!("probe after resume gave {:?}", other.map_err(|e| e.chars().take(120).collect::<String>())),
            ),
        }
        if !threads.is_empty() {
            match vmh::eval(&mut engine, "(map thread-join! ths)") {
                Ok(v) => {
                    let want = format!("({})", expect.join(" "));
                    if v.last() != Some(&want) {
                        report::violation(
                            &format!("C17/arrival/{}/{}/other-threads-disturbed", tier, mode),
                            format!("the other threads returned {:?}, expected {}", v.last(), want),
                        );
                    }
                }
                Err(e) => report::violation(
                    &format!("C17/arrival/{}/{}/other-threads-disturbed", tier, mode),
                    format!("joining the other threads failed: {}", e.chars().take(160).collect::<String>()),
                ),
            }
        }
        vmh::set_yield_at_dispatch(false);
    }

    fn rule(&self) -> String {
        format!("seeded search over arrival times of the host's interrupt request: the request is raised at hook event k (k < 500 single-threaded, < 2500 with threads; thorough x3) counted over every hook event of every simulated thread - dispatch steps, safepoint entry/exit windows, world-stop begin/end, heap lock, collections - while the engine evaluates 0-3 top-level definitions followed by one of {} non-terminating shapes (plain loops, loops that assign globals, allocate boxes/vectors or request collections, so the evaluating thread stops the world itself) with 0-2 other script threads working, allocating, assigning globals and collecting; forced collections at rate 0..1; both tiers; fair strategies; non-trivial = every run", SHAPES.len())
    }
    fn assumptions(&self) -> Vec<String> {
        vec!["the request is ThreadStateController::interrupt() of the engine, called from inside the hook of whichever simulated thread is running at tick k (the host is outside the simulation; this is the instant at which its call takes effect)".into()]
    }
    fn components(&self) -> Value {
        json!({"real": ["VM dispatch loop and interrupt poll", "safepoint handshake, world stops, collector", "spawn/join", "JIT (both tiers)"],
               "simulated": ["OS scheduler", "arrival time of the request", "collection timing", "park/unpark, blocking waits"]})
    }
}
