//! VM-level simulation support: the hook tables installed into steel-core and
//! steel-rc, the fault injector, the C15 monitors, prototype engines for the
//! zygote.

use crate::report;
use crate::rng::Rng;
use crate::sched;
use std::collections::BTreeMap;
use std::sync::atomic::{AtomicBool, AtomicU64, Ordering};
use std::sync::Mutex;
use steel::steel_vm::engine::Engine;
use steel::verif::site as vs;

// ---------------------------------------------------------------------------
// prototype engines (built once in the zygote, inherited by every child)

static mut PROTO_JIT: Option<Engine> = None;
static mut PROTO_NOJIT: Option<Engine> = None;

/// Build the prototype engines. Must be called in the main process before any
/// fork, while the process is single threaded.
pub fn build_prototypes(jit: bool, nojit: bool) {
    unsafe {
        if jit && (*std::ptr::addr_of!(PROTO_JIT)).is_none() {
            std::env::remove_var("STEEL_JIT");
            *std::ptr::addr_of_mut!(PROTO_JIT) = Some(Engine::new());
        }
        if nojit && (*std::ptr::addr_of!(PROTO_NOJIT)).is_none() {
            std::env::set_var("STEEL_JIT", "false");
            *std::ptr::addr_of_mut!(PROTO_NOJIT) = Some(Engine::new());
            std::env::remove_var("STEEL_JIT");
        }
    }
    let n = std::fs::read_dir("/proc/self/task").map(|d| d.count()).unwrap_or(1);
    if n != 1 {
        eprintln!("HARNESS-ERROR: zygote has {} threads after engine creation", n);
        std::process::exit(2);
    }
}

/// Take the inherited prototype engine (child only; each child takes it once).
pub fn take_engine(jit: bool) -> Engine {
    unsafe {
        let slot = if jit { std::ptr::addr_of_mut!(PROTO_JIT) } else { std::ptr::addr_of_mut!(PROTO_NOJIT) };
        if jit {
            std::env::remove_var("STEEL_JIT");
        } else {
            std::env::set_var("STEEL_JIT", "false");
        }
        (*slot).take().expect("prototype engine not built")
    }
}

// ---------------------------------------------------------------------------
// fault injector

pub struct Faults {
    pub rng: Rng,
    /// probability of forcing a full collection at an allocation: num/den
    pub gc_num: u64,
    pub gc_den: u64,
    /// only force for these kinds (0 value, 1 vector)
    pub gc_kinds: [bool; 2],
    /// raise the interrupt flag at this dispatch step of thread 0
    pub interrupt_at: Option<u64>,
    pub recycle_threshold: usize,
    /// heap growth chunk (slots added per full collection); 0 = shipped value
    pub heap_chunk: usize,
    pub gc_forced: u64,
}

static FAULTS: Mutex<Option<Faults>> = Mutex::new(None);
pub static DISPATCHES: AtomicU64 = AtomicU64::new(0);
pub static MAIN_DISPATCHES: AtomicU64 = AtomicU64::new(0);
pub static INTERRUPT_FIRED_AT: AtomicU64 = AtomicU64::new(u64::MAX);
pub static FULL_COLLECTIONS: AtomicU64 = AtomicU64::new(0);
static CONTROLLER: Mutex<Option<steel::steel_vm::ThreadStateController>> = Mutex::new(None);
static YIELD_AT_DISPATCH: AtomicBool = AtomicBool::new(false);
static STALE_IS_VIOLATION: AtomicBool = AtomicBool::new(true);
pub static STALE_SLOTS: AtomicU64 = AtomicU64::new(0);

static CONTEXT: Mutex<String> = Mutex::new(String::new());
static STALE_PROP: Mutex<String> = Mutex::new(String::new());

/// What the workload is doing right now (part of violation signatures).
pub fn set_context(c: &str) {
    let mut g = match CONTEXT.lock() {
        Ok(g) => g,
        Err(p) => p.into_inner(),
    };
    g.clear();
    g.push_str(c);
}

pub fn context() -> String {
    match CONTEXT.lock() {
        Ok(g) => g.clone(),
        Err(p) => p.into_inner().clone(),
    }
}

fn ctx_suffix() -> String {
    let c = context();
    if c.is_empty() {
        String::new()
    } else {
        format!("/{}", c)
    }
}

pub fn set_faults(f: Faults) {
    *FAULTS.lock().unwrap() = Some(f);
}

pub fn with_faults<R>(f: impl FnOnce(&mut Faults) -> R) -> Option<R> {
    let mut g = match FAULTS.lock() {
        Ok(g) => g,
        Err(p) => p.into_inner(),
    };
    g.as_mut().map(f)
}

pub fn set_interrupt_at(step: Option<u64>) {
    with_faults(|f| f.interrupt_at = step);
    INTERRUPT_FIRED_AT.store(u64::MAX, Ordering::SeqCst);
}

pub fn set_controller(c: steel::steel_vm::ThreadStateController) {
    *CONTROLLER.lock().unwrap() = Some(c);
}

pub fn set_yield_at_dispatch(b: bool) {
    YIELD_AT_DISPATCH.store(b, Ordering::SeqCst);
}

pub fn set_stale_is_violation(b: bool) {
    STALE_IS_VIOLATION.store(b, Ordering::SeqCst);
}

// ---------------------------------------------------------------------------
// C15 monitor state

#[derive(Default)]
struct Monitor {
    /// published context pointer -> simulated thread
    owner_of: BTreeMap<usize, usize>,
    /// simulated thread -> scanner currently reading/writing its state
    scanned_by: BTreeMap<usize, (usize, u32)>,
    /// threads that are currently published (inside a safepoint)
    published: BTreeMap<usize, usize>,
    world_stops: u64,
    scans: u64,
    /// stop requests that have reached every registered thread of a runtime
    /// (identified by its thread list) and have not been lifted yet
    stops_in_force: BTreeMap<usize, u64>,
    /// runtimes in which two stop requests were in force at the same time since
    /// the last moment without any
    overlapped: std::collections::BTreeSet<usize>,
    /// child most recently spawned by each thread, and threads that the parent
    /// has entered into the runtime's thread list
    last_spawned: BTreeMap<usize, usize>,
    registered: std::collections::BTreeSet<usize>,
}

static MONITOR: Mutex<Option<Monitor>> = Mutex::new(None);

fn monitor<R>(f: impl FnOnce(&mut Monitor) -> R) -> R {
    let mut g = match MONITOR.lock() {
        Ok(g) => g,
        Err(p) => p.into_inner(),
    };
    if g.is_none() {
        *g = Some(Monitor::default());
    }
    f(g.as_mut().unwrap())
}

pub fn is_published(tid: usize) -> bool {
    monitor(|m| m.published.contains_key(&tid))
}

fn check_not_scanned(site: u32) {
    if let Some(me) = sched::current() {
        let hit = monitor(|m| m.scanned_by.get(&me).copied());
        if let Some((scanner, ssite)) = hit {
            report::violation(
                &format!(
                    "C15/scan-overlap/scanner={},owner-at={}",
                    steel::verif::site_name(ssite),
                    steel::verif::site_name(site)
                ),
                format!(
                    "t{} is running (at {}) while t{} is inside {} on its stack/global table",
                    me,
                    steel::verif::site_name(site),
                    scanner,
                    steel::verif::site_name(ssite)
                ),
            );
        }
    }
}

// ---------------------------------------------------------------------------
// steel-core hooks

fn h_dispatch() {
    let me = match sched::current() {
        Some(t) => t,
        None => return,
    };
    DISPATCHES.fetch_add(1, Ordering::Relaxed);
    host_tick(vs::DISPATCH);
    if me == 0 {
        let n = MAIN_DISPATCHES.fetch_add(1, Ordering::Relaxed);
        let fire = with_faults(|f| f.interrupt_at == Some(n)).unwrap_or(false);
        if fire {
            if let Some(c) = CONTROLLER.lock().unwrap().as_ref() {
                c.interrupt();
                INTERRUPT_FIRED_AT.store(n, Ordering::SeqCst);
                report::fault("interrupt@dispatch");
            }
        }
    }
    if YIELD_AT_DISPATCH.load(Ordering::Relaxed) {
        check_not_scanned(vs::DISPATCH);
        sched::yield_point_ex(vs::DISPATCH, 0, true);
    }
}

/// The embedding program's view of time: every hook event of any simulated
/// thread is one tick, and the host's interrupt request can arrive at any tick
/// (during script execution, inside a world stop, during a collection, while a
/// thread is entering or leaving a safepoint ...).
fn host_tick(site: u32) {
    let at = HOST_INTERRUPT_AT.load(Ordering::Relaxed);
    if at == u64::MAX {
        return;
    }
    let t = HOST_TICKS.fetch_add(1, Ordering::SeqCst);
    if t == at {
        if let Some(c) = CONTROLLER.lock().unwrap().as_ref() {
            let stops: u64 = monitor(|m| m.stops_in_force.values().sum());
            HOST_INTERRUPT_DURING_STOP.store(stops > 0, Ordering::SeqCst);
            HOST_INTERRUPT_SITE.store(site as u64, Ordering::SeqCst);
            c.interrupt();
            HOST_INTERRUPT_MAIN_DISPATCH.store(MAIN_DISPATCHES.load(Ordering::SeqCst), Ordering::SeqCst);
            report::fault(if stops > 0 { "interrupt@tick-during-world-stop" } else { "interrupt@tick" });
            sched::note(crate::sites::H_HOST_INTERRUPT, t);
        }
    }
}

pub static HOST_TICKS: AtomicU64 = AtomicU64::new(0);
pub static HOST_INTERRUPT_DURING_STOP: AtomicBool = AtomicBool::new(false);
pub static HOST_INTERRUPT_SITE: AtomicU64 = AtomicU64::new(0);

fn h_point(site: u32, arg: usize) {
    let me = match sched::current() {
        Some(t) => t,
        None => return,
    };
    host_tick(site);
    match site {
        vs::SP_PUBLISH | vs::ES_PUBLISH | vs::ESO_PUBLISH => {
            monitor(|m| {
                m.owner_of.insert(arg, me);
                m.published.insert(me, arg);
            });
            sched::yield_point_ex(site, 0, false);
        }
        vs::ES_AFTER_FINISH | vs::ESO_AFTER_FINISH => {
            sched::yield_point_ex(site, 0, false);
        }
        vs::SP_BEFORE_RETRACT | vs::ES_BEFORE_RETRACT | vs::ESO_BEFORE_RETRACT => {
            // the window: paused was seen false, the pointer is still published
            report::probe("handshake.exit-window");
            sched::yield_point_ex(site, 0, false);
        }
        vs::SP_RETRACTED | vs::ES_RETRACTED | vs::ESO_RETRACTED => {
            // the pointer is gone; the thread looks at the flag once more before
            // it goes on (see leave_safepoint), so it is not "running" yet
            monitor(|m| {
                m.published.remove(&me);
            });
            sched::yield_point_ex(site, 0, false);
        }
        vs::SP_EXIT | vs::ES_EXIT => {
            // from here on the thread runs script code again
            let (stops, registered) = monitor(|m| (m.stops_in_force.get(&arg).copied().unwrap_or(0), me == 0 || m.registered.contains(&me)));
            if stops > 0 && !registered {
                report::violation(
                    "C15/unregistered-thread-ran-during-stop",
                    format!(
                        "t{} (started by its parent but not yet entered into the runtime's thread list) runs script code at {} while {} stop request(s) are in force: it was neither paused nor scanned, and a global update made by the stopper does not reach its global table",
                        me,
                        steel::verif::site_name(site),
                        stops
                    ),
                );
            }
            if stops > 0 && monitor(|m| m.overlapped.contains(&arg)) {
                report::violation(
                    "C15/overlapping-world-stops/thread-released-while-a-stop-is-in-force",
                    format!(
                        "t{} left its safepoint at {} while a stop request was still in force: two stop requests overlapped and the resume of the first released the threads of the second",
                        me,
                        steel::verif::site_name(site)
                    ),
                );
            }
            if stops > 0 {
                report::violation(
                    &format!("C15/left-safepoint-during-stop/{}", steel::verif::site_name(site)),
                    format!(
                        "t{} left its safepoint at {} while {} stop request(s) were in force (every registered thread had been told to pause and had not been resumed)",
                        me,
                        steel::verif::site_name(site),
                        stops
                    ),
                );
            }
            if stops == 0 {
                monitor(|m| {
                    if m.stops_in_force.get(&arg).copied().unwrap_or(0) == 0 {
                        m.overlapped.remove(&arg);
                    }
                });
            }
            check_not_scanned(site);
            sched::yield_point_ex(site, 0, true);
        }
        vs::SCAN_BEGIN | vs::ENV_TOUCH_BEGIN => {
            let owner = monitor(|m| {
                m.scans += 1;
                let o = m.owner_of.get(&arg).copied();
                if let Some(o) = o {
                    m.scanned_by.insert(o, (me, site));
                }
                o
            });
            if owner.is_some() {
                report::probe(if site == vs::SCAN_BEGIN { "scan.foreign-stack" } else { "scan.foreign-env" });
            }
            sched::yield_point_ex(site, 0, false);
        }
        vs::SCAN_END | vs::ENV_TOUCH_END => {
            monitor(|m| {
                if let Some(o) = m.owner_of.get(&arg).copied() {
                    m.scanned_by.remove(&o);
                }
            });
            sched::yield_point_ex(site, 0, false);
        }
        vs::STOP_END => {
            // every registered thread has been told to pause
            monitor(|m| {
                let e = m.stops_in_force.entry(arg).or_insert(0);
                *e += 1;
                if *e >= 2 {
                    m.overlapped.insert(arg);
                    report::probe("world-stop.two-at-once");
                }
            });
            sched::yield_point_ex(site, 0, false);
        }
        vs::RESUME_BEGIN => {
            monitor(|m| {
                let e = m.stops_in_force.entry(arg).or_insert(0);
                *e = e.saturating_sub(1);
                if *e == 0 {
                    // checked by threads leaving afterwards through `overlap_recent`
                }
            });
            sched::yield_point_ex(site, 0, false);
        }
        vs::STOP_BEGIN | vs::RESUME_END => {
            sched::yield_point_ex(site, 0, false);
        }
        vs::WORLD_STOP_BEGIN => {
            monitor(|m| m.world_stops += 1);
            report::probe("world-stop");
            sched::yield_point_ex(site, 0, false);
        }
        vs::WORLD_STOP_END => {
            sched::yield_point_ex(site, 0, true);
        }
        vs::GC_FULL => {
            FULL_COLLECTIONS.fetch_add(1, Ordering::Relaxed);
            report::probe("collection.full");
            sched::note(site, 0);
        }
        vs::GC_BEGIN | vs::GC_END => {}
        vs::HEAP_LOCKED => {
            sched::yield_point_ex(site, 0, false);
        }
        vs::THREAD_REGISTERED => {
            monitor(|m| {
                if let Some(c) = m.last_spawned.get(&me).copied() {
                    m.registered.insert(c);
                }
            });
            sched::yield_point_ex(site, 0, true);
        }
        vs::THREAD_BODY_BEGIN => {
            monitor(|m| {
                m.owner_of.insert(arg, me);
            });
            sched::yield_point_ex(site, 0, true);
        }
        vs::WATCHDOG_ARMED => {
            WD_ARMED_AT.store(sched::now(), Ordering::SeqCst);
            sched::yield_point_ex(site, 0, true);
        }
        vs::WATCHDOG_FIRED => {
            WD_FIRES.fetch_add(1, Ordering::SeqCst);
            WD_FIRED_AT_MAIN_DISPATCH.store(MAIN_DISPATCHES.load(Ordering::SeqCst), Ordering::SeqCst);
            report::fault("watchdog-interrupt");
            sched::yield_point_ex(site, 0, true);
        }
        vs::WATCHDOG_BODY_DONE => {
            WD_BODY_DONE_AT.store(sched::now(), Ordering::SeqCst);
            sched::yield_point_ex(site, 0, true);
        }
        vs::WATCHDOG_WOKE | vs::WATCHDOG_FIRE | vs::WATCHDOG_SENT | vs::WATCHDOG_RESUMED | vs::WATCHDOG_DISARMED => {
            sched::yield_point_ex(site, 0, true);
        }
        _ => {
            sched::note(site, arg as u64);
        }
    }
}

/// Bookkeeping for the watchdog scenario (simulated time / dispatch counts).
pub static WD_ARMED_AT: AtomicU64 = AtomicU64::new(0);
pub static WD_BODY_DONE_AT: AtomicU64 = AtomicU64::new(0);
pub static WD_FIRES: AtomicU64 = AtomicU64::new(0);
pub static WD_FIRED_AT_MAIN_DISPATCH: AtomicU64 = AtomicU64::new(0);
/// Only fair scheduling strategies (no strict priorities) for this run.
pub static FAIR_ONLY: AtomicBool = AtomicBool::new(false);
/// Raise the interrupt flag when the global dispatch count reaches this value
/// (whichever thread is dispatching: the host calls from outside).
pub static HOST_INTERRUPT_AT: AtomicU64 = AtomicU64::new(u64::MAX);
pub static HOST_INTERRUPT_MAIN_DISPATCH: AtomicU64 = AtomicU64::new(u64::MAX);

fn h_spin(site: u32) {
    sched::spin(site);
}

fn h_wait(site: u32, cond: &mut dyn FnMut() -> bool) {
    if sched::current().is_none() {
        return;
    }
    sched::wait_until(site, cond);
}

fn h_join(thread: std::thread::ThreadId, finished: &mut dyn FnMut() -> bool) {
    if sched::current().is_none() {
        return;
    }
    // Simulated part: wait until the joined thread has ended in simulated
    // terms (a function of the schedule only).
    match sched::sim_id_of(thread) {
        Some(t) => sched::wait_until(vs::JOIN, &mut || sched::is_finished(t)),
        None => {}
    }
    // Real part: the OS thread ends a few microseconds after its simulated
    // end; wait for it without involving the scheduler.
    let mut spins = 0u64;
    while !finished() {
        std::thread::sleep(std::time::Duration::from_micros(20));
        spins += 1;
        if spins > 500_000 {
            report::harness_error("joined thread ended in simulated terms but its OS thread did not finish".to_string());
        }
    }
}

fn h_timed_wait(site: u32, cond: &mut dyn FnMut() -> bool, timeout: std::time::Duration) -> Option<bool> {
    if sched::current().is_none() {
        return None;
    }
    let ok = sched::timed_wait(site, cond, timeout.as_micros() as u64);
    if !ok {
        report::fault("timer-expired");
    }
    Some(ok)
}

fn h_park(site: u32) {
    sched::park(site);
}

fn h_unpark(id: std::thread::ThreadId) {
    sched::unpark_os(id);
}

fn h_force_collection(kind: u32) -> bool {
    if sched::current().is_none() {
        return false;
    }
    let fire = with_faults(|f| {
        if f.gc_num == 0 || !f.gc_kinds[(kind as usize).min(1)] {
            return false;
        }
        let fire = f.rng.chance(f.gc_num, f.gc_den);
        if fire {
            f.gc_forced += 1;
        }
        fire
    })
    .unwrap_or(false);
    if fire {
        report::fault(if kind == 0 { "gc_full@value-alloc" } else { "gc_full@vector-alloc" });
    }
    fire
}

fn h_knob(which: u32, default: usize) -> usize {
    match which {
        0 => with_faults(|f| f.recycle_threshold).unwrap_or(default),
        1 => match with_faults(|f| f.heap_chunk).unwrap_or(0) {
            0 => default,
            n => n,
        },
        _ => default,
    }
}

fn h_stale_slot(addr: usize) {
    if sched::current().is_none() {
        return;
    }
    let nth = STALE_SLOTS.fetch_add(1, Ordering::SeqCst);
    if nth == 0 && !STALE_IS_VIOLATION.load(Ordering::SeqCst) {
        let bt = std::backtrace::Backtrace::force_capture().to_string();
        let frames: Vec<&str> = bt.lines().filter(|l| l.contains("steel::")).take(14).collect();
        report::set_extra("first_stale", serde_json::json!(frames.join(" | ")));
    }
    if STALE_IS_VIOLATION.load(Ordering::SeqCst) {
        let bt = std::backtrace::Backtrace::force_capture().to_string();
        let frames: Vec<&str> = bt
            .lines()
            .filter(|l| l.contains("steel::") && !l.contains("verif"))
            .take(10)
            .collect();
        report::violation(
            &format!("{}{}/stale-slot-touched", STALE_PROP.lock().unwrap().clone(), ctx_suffix()),
            format!(
                "a live reference reads or writes heap slot {:#x}, which the collector has marked free\n{}",
                addr,
                frames.join("\n")
            ),
        );
    }
}

static CORE_HOOKS: steel::verif::Hooks = steel::verif::Hooks {
    dispatch: h_dispatch,
    point: h_point,
    spin: h_spin,
    wait: h_wait,
    join: h_join,
    park: h_park,
    unpark: h_unpark,
    force_collection: h_force_collection,
    knob: h_knob,
    stale_slot: h_stale_slot,
    thread_prepare: rc_prepare,
    thread_begin: rc_begin,
    thread_end: rc_end,
    timed_wait: h_timed_wait,
};

// steel-rc hooks at VM level: no sub-operation scheduling (values are dropped
// while slot locks are held), real frees, thread life cycle only.

fn rc_access(site: u32, addr: usize) {
    // Simulated threads never reach a scheduling point inside steel-rc here, so
    // at any moment at most one of them is inside the queue map: a lock that
    // `enqueue` would have to wait for is held by the calling thread itself.
    if site == steel_rc::verif::site::ENQUEUE_TID && sched::is_sim_thread() && steel_rc::verif::enqueue_would_block(addr) {
        report::violation(
            "C16/self-deadlock/enqueue-inside-explicit-merge",
            format!(
                "t{}: a destructor run by run_explicit_merge dropped a reference owned by another thread; enqueue needs the queue-map lock that the merge itself is holding: the thread blocks forever",
                sched::current().unwrap_or(99)
            ),
        );
    }
}
fn rc_dealloc(_addr: usize) -> bool {
    false
}
fn rc_prepare() {
    if let Some(parent) = sched::current() {
        if let Some(child) = sched::spawn_prepare() {
            monitor(|m| {
                m.last_spawned.insert(parent, child);
            });
        }
        report::probe("thread.spawned");
    }
}
fn rc_begin() {
    sched::thread_begin();
}
fn rc_end() {
    sched::thread_end(false);
}

static RC_HOOKS: steel_rc::verif::Hooks = steel_rc::verif::Hooks {
    access: rc_access,
    dealloc: rc_dealloc,
    thread_prepare: rc_prepare,
    thread_begin: rc_begin,
    thread_end: rc_end,
};

pub fn install_hooks() {
    steel::verif::install(&CORE_HOOKS);
    steel_rc::verif::install(&RC_HOOKS);
}

/// Sites at which the stall strategy may set a thread aside: the windows of
/// the handshake, of world stops, of collections and of thread start.
pub const STALL_SITES: &[u32] = &[
    vs::SP_PUBLISH, vs::SP_BEFORE_RETRACT, vs::SP_RETRACTED, vs::SP_EXIT,
    vs::ES_PUBLISH, vs::ES_AFTER_FINISH, vs::ES_BEFORE_RETRACT, vs::ES_RETRACTED, vs::ES_EXIT,
    vs::ESO_PUBLISH, vs::ESO_AFTER_FINISH, vs::ESO_BEFORE_RETRACT, vs::ESO_RETRACTED,
    vs::STOP_BEGIN, vs::STOP_END, vs::RESUME_BEGIN, vs::RESUME_END,
    vs::SCAN_BEGIN, vs::SCAN_END, vs::ENV_TOUCH_BEGIN, vs::ENV_TOUCH_END,
    vs::WORLD_STOP_BEGIN, vs::WORLD_STOP_END, vs::HEAP_LOCKED, vs::GC_BEGIN, vs::GC_END,
    vs::THREAD_REGISTERED, vs::THREAD_BODY_BEGIN, vs::DISPATCH, vs::DISPATCH,
    vs::WATCHDOG_WOKE, vs::WATCHDOG_FIRE, vs::WATCHDOG_FIRED, vs::WATCHDOG_ARMED,
    vs::WATCHDOG_BODY_DONE, vs::WATCHDOG_SEND, vs::WATCHDOG_SENT, vs::WATCHDOG_RESUMED,
];

pub fn hot_site(site: u32) -> bool {
    matches!(
        site,
        vs::SP_PUBLISH
            | vs::SP_BEFORE_RETRACT
            | vs::ES_PUBLISH
            | vs::ES_AFTER_FINISH
            | vs::ES_BEFORE_RETRACT
            | vs::ESO_BEFORE_RETRACT
            | vs::STOP_BEGIN
            | vs::STOP_END
            | vs::RESUME_BEGIN
            | vs::SCAN_BEGIN
            | vs::ENV_TOUCH_BEGIN
            | vs::HEAP_LOCKED
            | vs::THREAD_REGISTERED
            | vs::WATCHDOG_WOKE
            | vs::WATCHDOG_FIRE
            | vs::WATCHDOG_BODY_DONE
            | vs::WATCHDOG_SENT
            | vs::WATCHDOG_RESUMED
            | vs::WATCHDOG_ARMED
    )
}

/// Default panic classification for VM-level scenarios: a panic that reaches
/// the host is a violation of C07 as well as of the property under test.
pub fn panic_signature(prop: &str, msg: &str) -> Option<String> {
    if msg.contains("hook called by a thread without the token")
        || msg.contains("prototype engine not built")
        || msg.contains("HARNESS")
    {
        return None;
    }
    // the part after " @" is the innermost function (added by the panic hook);
    // signatures of this default classification use the message only
    let short: String = msg
        .split(" @")
        .next()
        .unwrap_or(msg)
        .chars()
        .take(70)
        .map(|c| if c.is_ascii_digit() { '#' } else { c })
        .collect();
    Some(format!("{}{}/host-panic/{}", prop, ctx_suffix(), short.replace(' ', "-")))
}

// ---------------------------------------------------------------------------
// common start-up of a VM-level run inside a child

pub struct VmOptions {
    pub property: &'static str,
    pub jit: bool,
    pub faults: Faults,
    /// interleave threads at instruction granularity (multi-threaded scenarios)
    pub yield_at_dispatch: bool,
    pub max_steps: u64,
    pub expected_steps: u64,
    pub on_stop: fn(sched::Stop) -> !,
    pub panic_class: fn(&str) -> Option<String>,
}

pub fn start(spec: &crate::runner::Spec, opts: VmOptions) -> Engine {
    report::install_panic_hook(opts.panic_class);
    *STALE_PROP.lock().unwrap() = opts.property.to_string();
    let mut srng = Rng::derive(spec.seed, spec.index, 2);
    let mut strategy = sched::Strategy::swarm_with_stall(&mut srng, opts.expected_steps, STALL_SITES);
    while FAIR_ONLY.load(Ordering::SeqCst) && matches!(strategy.kind, sched::Kind::Pct) {
        strategy = sched::Strategy::swarm_with_stall(&mut srng, opts.expected_steps, STALL_SITES);
    }
    if FAIR_ONLY.load(Ordering::SeqCst) {
        strategy.stall_len = strategy.stall_len.min(400);
    }
    report::set_strategy(strategy.describe());
    sched::init(sched::Config {
        seed: srng.next_u64(),
        strategy,
        max_steps: opts.max_steps,
        hot: hot_site,
        replay: spec.replay.clone(),
        replay_strict: spec.strict,
        full_trace: spec.full_trace,
        on_stop: opts.on_stop,
    });
    set_faults(opts.faults);
    set_yield_at_dispatch(opts.yield_at_dispatch);
    install_hooks();
    let engine = take_engine(opts.jit);
    set_controller(engine.get_thread_state_controller());
    engine
}

/// Evaluate and render every resulting value with `Display`.
pub fn eval(engine: &mut Engine, src: &str) -> Result<Vec<String>, String> {
    match engine.run(src.to_string()) {
        Ok(vs) => Ok(vs.iter().map(|v| format!("{}", v)).collect()),
        Err(e) => Err(format!("{}", e)),
    }
}

pub fn default_faults(seed: u64, index: u64) -> Faults {
    Faults {
        rng: Rng::derive(seed, index, 3),
        gc_num: 0,
        gc_den: 1,
        gc_kinds: [true, true],
        interrupt_at: None,
        recycle_threshold: 0,
        heap_chunk: 0,
        gc_forced: 0,
    }
}
