//! C06 — earlier definitions keep their meaning across any evaluation history.
//!
//! One engine, a seeded history of evaluations (define / define function /
//! redefine / set! / failing evaluations / host register+update / collections)
//! with the global-slot recycling threshold randomised so that recycling
//! happens inside short histories. Oracle: a binding model, compared after
//! every step by calling every live function and reading every live variable.

use crate::report;
use crate::rng::Rng;
use crate::runner::{Scenario, Spec};
use crate::vmh;
use serde_json::{json, Value};
use std::collections::{BTreeMap, BTreeSet};
use steel::steel_vm::engine::Engine;
use steel::SteelVal;

pub struct C06;

#[derive(Clone, Debug)]
enum B {
    Int(i64),
    Fn { k: i64, calls: Vec<usize>, reads: Vec<usize> },
    Unbound,
}

#[derive(Clone, Debug)]
struct Binding {
    val: B,
    def_eval: usize,
    /// evaluations (after the defining one) that assigned this binding
    assigned_later: bool,
    /// value the defining form gave (compile-time constant)
    const_at_def: bool,
    /// how the value is reached: 0 plain name / direct call, 1 through a closure
    /// made by make-caller, 2 function inside a box, 3 function inside a vector,
    /// 4 a setter function (not probed; called by explicit steps)
    access: u8,
}

#[derive(Default, Clone)]
pub struct Model {
    bindings: Vec<Binding>,
    current: BTreeMap<String, usize>,
    evals: usize,
    /// functions whose observed value deviates in a recorded (known) way
    tainted: BTreeSet<usize>,
    /// names whose state in the engine is unknown after a recorded defect
    poisoned: BTreeSet<String>,
}

impl Model {
    fn value(&self, b: usize) -> Result<i64, String> {
        match &self.bindings[b].val {
            B::Int(i) => Ok(*i),
            B::Unbound => Err("unbound".into()),
            B::Fn { k, calls, reads } => {
                let mut s = *k;
                for c in calls {
                    s += self.value(*c)?;
                }
                for r in reads {
                    s += self.value(*r)?;
                }
                Ok(s)
            }
        }
    }
    fn depends_on_tainted(&self, b: usize) -> bool {
        if self.tainted.contains(&b) {
            return true;
        }
        match &self.bindings[b].val {
            B::Fn { calls, reads, .. } => calls.iter().chain(reads.iter()).any(|x| self.depends_on_tainted(*x)),
            _ => false,
        }
    }
    /// Does function binding `f` read (directly or through calls) a variable
    /// binding that was defined with a constant in the evaluation that also
    /// compiled the reader, and was assigned in a later evaluation?
    fn folded_read(&self, f: usize) -> bool {
        match &self.bindings[f].val {
            B::Fn { calls, reads, .. } => {
                let fe = self.bindings[f].def_eval;
                reads.iter().any(|r| {
                    let b = &self.bindings[*r];
                    // defined with a constant in the evaluation that compiled
                    // the reader, and either assigned later or never actually
                    // defined (the defining form did not run)
                    b.def_eval == fe && ((b.const_at_def && b.assigned_later) || matches!(b.val, B::Unbound))
                }) || calls.iter().any(|c| {
                    // a callee defined in the same evaluation may be inlined
                    // into the caller and folded as well
                    self.folded_read(*c)
                        || (self.bindings[*c].def_eval == fe
                            && self.bindings[*c].assigned_later)
                })
            }
            _ => false,
        }
    }
}

const VARS: &[&str] = &["va", "vb", "vc", "vd", "ve"];
const FNS: &[&str] = &["fa", "fb", "fc", "fd", "fe"];

/// A form of the generated language. Rendered to source and applied to the
/// model in lock step.
pub fn render(form: &Value) -> String {
    let a = form.as_array().unwrap();
    match a[0].as_str().unwrap() {
        "def" => format!("(define {} {})", a[1].as_str().unwrap(), a[2]),
        "deffn" if a.get(5).and_then(|x| x.as_str()).unwrap_or("call") != "call" => {
            let name = a[1].as_str().unwrap();
            let mut body = format!("(+ {}", a[2]);
            for c in a[3].as_array().unwrap() {
                body.push_str(&format!(" ({})", c.as_str().unwrap()));
            }
            for r in a[4].as_array().unwrap() {
                body.push_str(&format!(" {}", r.as_str().unwrap()));
            }
            body.push(')');
            match a[5].as_str().unwrap() {
                "caller" => format!("(define {} (make-caller (lambda () {})))", name, body),
                "boxed" => format!("(define {} (box (lambda () {})))", name, body),
                "vec" => format!("(define {} (vector (lambda () {})))", name, body),
                _ => {
                    // setter: assigns the variable named in a[4][0]
                    let var = a[4][0].as_str().unwrap();
                    format!("(define ({}) (set! {} {}) {})", name, var, a[2], a[2])
                }
            }
        }
        "callset" => format!("({})", a[1].as_str().unwrap()),
        "deffn" => {
            let mut s = format!("(define ({}) (+ {}", a[1].as_str().unwrap(), a[2]);
            for c in a[3].as_array().unwrap() {
                s.push_str(&format!(" ({})", c.as_str().unwrap()));
            }
            for r in a[4].as_array().unwrap() {
                s.push_str(&format!(" {}", r.as_str().unwrap()));
            }
            s.push_str("))");
            s
        }
        "set" => format!("(set! {} {})", a[1].as_str().unwrap(), a[2]),
        "expr" => format!("(+ 1 {})", a[1]),
        "fail-rt" => match a[1].as_u64().unwrap_or(0) % 4 {
            0 => "(car 5)".to_string(),
            1 => "(error \"boom\")".to_string(),
            2 => "(apply (lambda (a b) a) (list 1))".to_string(),
            _ => "(vector-ref (vector 1 2) 10)".to_string(),
        },
        "fail-ct" => match a[1].as_u64().unwrap_or(0) % 4 {
            3 => format!("(define self-ref-{n} (self-ref-{n} 1))", n = a[1]),
            0 => format!("(undefined-name-{})", a[1]),
            1 => format!("(+ 1 (also-undefined-{} 2))", a[1]),
            _ => "(define (broken) (let ((x 1)) (nope-not-defined x)))".to_string(),
        },
        // a macro definition for the name of an existing function, in a program that
        // is then rejected at compile time
        "fail-ct-macro" => format!(
            "(define-syntax {n} (syntax-rules () [({n} . args) 'from-rejected-program]))\n(undefined-name-{u})",
            n = a[1].as_str().unwrap_or("nobody"),
            u = a[2]
        ),
        "gc" => "(#%gc-collect)".to_string(),
        _ => "(void)".to_string(),
    }
}

pub fn gen_history(rng: &mut Rng, thorough: bool) -> Value {
    let jit = rng.chance(1, 2);
    let threshold = *rng.pick(&[1u64, 1, 2, 5, 20, 100]);
    let nsteps = if rng.chance(1, 6) {
        rng.range(60, if thorough { 400 } else { 160 })
    } else {
        rng.range(5, 40)
    };
    // names that currently exist, tracked loosely by the generator (the model
    // in the child is authoritative; the generator only needs plausible refs)
    let mut vars: Vec<&str> = Vec::new();
    let mut fns: Vec<&str> = Vec::new();
    let mut steps = Vec::new();
    let mut next = 10i64;
    let mut uniq = 0u64;
    // swarm weights
    let w_fail = rng.range(0, 3);
    let w_multi = rng.range(0, 2);
    let w_host = rng.range(0, 2);
    let risky_after_fail = rng.chance(1, 8); // definitions after a failing form
    let same_eval_reader = rng.chance(1, 8); // definer and reader in one evaluation
    for _ in 0..nsteps {
        next += rng.range(1, 9) as i64;
        let mut forms: Vec<Value> = Vec::new();
        let gen_def = |rng: &mut Rng, vars: &mut Vec<&'static str>, next: i64| -> Value {
            let v = *rng.pick(VARS);
            if !vars.contains(&v) {
                vars.push(v);
            }
            json!(["def", v, next])
        };
        let gen_fn = |rng: &mut Rng, vars: &Vec<&'static str>, fns: &mut Vec<&'static str>, next: i64, exclude: &str| -> Value {
            let f = *rng.pick(FNS);
            let mut calls = Vec::new();
            let mut reads = Vec::new();
            for _ in 0..rng.below(3) {
                if !fns.is_empty() {
                    let c = *rng.pick(fns);
                    if c != f && c != exclude {
                        calls.push(c);
                    }
                }
            }
            for _ in 0..rng.below(3) {
                if !vars.is_empty() {
                    reads.push(*rng.pick(vars));
                }
            }
            // other ways of holding a function: a closure made by one shared
            // lambda, a box, a vector, or a function that assigns a global
            match rng.below(9) {
                0 | 1 if !fns.is_empty() => {
                    let name = *rng.pick(&["ca", "cb", "cc"]);
                    let target = *rng.pick(fns);
                    return json!(["deffn", name, 0, [target], [], "caller"]);
                }
                2 => {
                    let name = *rng.pick(&["ba", "bb"]);
                    let calls: Vec<&str> = calls.iter().copied().collect();
                    return json!(["deffn", name, next, calls, reads, "boxed"]);
                }
                3 => {
                    let name = *rng.pick(&["ta", "tb"]);
                    return json!(["deffn", name, next, calls, reads, "vec"]);
                }
                4 if !vars.is_empty() => {
                    let name = *rng.pick(&["sa", "sb"]);
                    let var = *rng.pick(vars);
                    return json!(["deffn", name, next, [], [var], "setter"]);
                }
                _ => {}
            }
            if !fns.contains(&f) {
                fns.push(f);
            }
            json!(["deffn", f, next, calls, reads])
        };
        let kind = rng.below(12 + w_fail * 2 + w_multi * 2 + w_host * 2);
        match kind {
            0..=2 => forms.push(gen_def(rng, &mut vars, next)),
            3..=5 => forms.push(gen_fn(rng, &vars, &mut fns, next, "")),
            6..=7 => {
                if !vars.is_empty() {
                    forms.push(json!(["set", *rng.pick(&vars), next]));
                } else {
                    forms.push(gen_def(rng, &mut vars, next));
                }
            }
            8 => {
                if rng.chance(1, 2) {
                    forms.push(json!(["callset", *rng.pick(&["sa", "sb"])]));
                } else {
                    forms.push(json!(["expr", next]));
                }
            }
            9 => forms.push(json!(["gc"])),
            10..=11 => {
                // multi-form successful evaluation
                let n = rng.range(2, 4);
                let mut defined_here: Vec<String> = Vec::new();
                for _ in 0..n {
                    next += 1;
                    let f = match rng.below(3) {
                        0 => gen_def(rng, &mut vars, next),
                        1 => gen_fn(rng, &vars, &mut fns, next, ""),
                        _ => {
                            if !vars.is_empty() {
                                json!(["set", *rng.pick(&vars), next])
                            } else {
                                gen_def(rng, &mut vars, next)
                            }
                        }
                    };
                    let name = f[1].as_str().unwrap_or("").to_string();
                    // one definition per name per evaluation
                    if (f[0] == "def" || f[0] == "deffn") && defined_here.contains(&name) {
                        continue;
                    }
                    // unless asked for, a function does not read a variable
                    // defined earlier in the same evaluation
                    if f[0] == "deffn" && !same_eval_reader {
                        let reads_here = f[4].as_array().unwrap().iter().any(|r| defined_here.contains(&r.as_str().unwrap().to_string()))
                            || f[3].as_array().unwrap().iter().any(|r| defined_here.contains(&r.as_str().unwrap().to_string()));
                        if reads_here {
                            continue;
                        }
                    }
                    if f[0] == "def" || f[0] == "deffn" {
                        defined_here.push(name);
                    }
                    forms.push(f);
                }
            }
            k if k < 12 + w_fail * 2 => {
                // failing evaluation
                uniq += 1;
                let pre = rng.below(3);
                for _ in 0..pre {
                    next += 1;
                    let f = if rng.chance(1, 3) {
                        gen_def(rng, &mut vars, next)
                    } else if rng.chance(1, 2) {
                        gen_fn(rng, &vars, &mut fns, next, "")
                    } else if !vars.is_empty() {
                        json!(["set", *rng.pick(&vars), next])
                    } else {
                        json!(["expr", next])
                    };
                    if (f[0] == "def" || f[0] == "deffn") && forms.iter().any(|g: &Value| g[1] == f[1] && (g[0] == "def" || g[0] == "deffn")) {
                        continue;
                    }
                    forms.push(f);
                }
                if rng.chance(1, 2) {
                    forms.push(json!(["fail-ct", uniq]));
                } else {
                    forms.push(json!(["fail-rt", uniq]));
                }
                if risky_after_fail && rng.chance(1, 2) {
                    next += 1;
                    let f = gen_def(rng, &mut vars, next);
                    if !forms.iter().any(|g: &Value| g[1] == f[1] && g[0] == "def") {
                        forms.push(f);
                    }
                } else if rng.chance(1, 2) {
                    forms.push(json!(["expr", next]));
                }
            }
            k if k < 12 + w_fail * 2 + w_multi * 2 => {
                forms.push(gen_fn(rng, &vars, &mut fns, next, ""));
                forms.push(json!(["gc"]));
            }
            _ => {
                // host-side definition / update
                let v = *rng.pick(VARS);
                if vars.contains(&v) && rng.chance(1, 2) {
                    forms.push(json!(["hostset", v, next]));
                } else {
                    if !vars.contains(&v) {
                        vars.push(v);
                    }
                    forms.push(json!(["hostdef", v, next]));
                }
            }
        }
        if !forms.is_empty() {
            steps.push(Value::Array(forms));
        }
    }
    // last step of 1 history in 6: a program that defines a macro under the name
    // of an existing function and is then rejected at compile time. It comes
    // last because the recorded defect (the macro stays) changes what every
    // later piece of new code means.
    if rng.chance(1, 6) && !fns.is_empty() {
        let victim = *rng.pick(&fns);
        steps.push(json!([["fail-ct-macro", victim, 9999]]));
    }
    json!({"jit": jit, "threshold": threshold, "gc": [*rng.pick(&[0u64, 0, 1, 1]), *rng.pick(&[16u64, 64])], "steps": steps})
}

fn class_of_failure(forms: &[Value]) -> (&'static str, usize) {
    for (i, f) in forms.iter().enumerate() {
        if f[0] == "fail-ct" || f[0] == "fail-ct-macro" {
            return ("ct", i);
        }
    }
    for (i, f) in forms.iter().enumerate() {
        if f[0] == "fail-rt" {
            return ("rt", i);
        }
    }
    ("ok", forms.len())
}

struct Run<'a> {
    engine: &'a mut Engine,
    model: Model,
    known_hits: Vec<(String, String)>,
}

impl<'a> Run<'a> {
    fn resolve(&self, name: &str) -> Option<usize> {
        self.model.current.get(name).copied()
    }

    /// Apply one form to the model. `names` is the compile-time name table of
    /// this evaluation (updated by defines as they are compiled, in order).
    fn apply(&mut self, form: &Value, names: &BTreeMap<String, usize>, new_ids: &BTreeMap<usize, usize>, idx: usize, executed: bool) {
        let a = form.as_array().unwrap();
        let eval = self.model.evals;
        match a[0].as_str().unwrap() {
            "def" | "deffn" => {
                // the binding was created at compile time (new_ids[idx]); running
                // the form gives it its value
                if let Some(&b) = new_ids.get(&idx) {
                    if executed {
                        let val = if a[0] == "def" {
                            B::Int(a[2].as_i64().unwrap())
                        } else {
                            let calls = a[3].as_array().unwrap().iter().filter_map(|c| names_at(names, c.as_str().unwrap())).collect();
                            let reads = a[4].as_array().unwrap().iter().filter_map(|c| names_at(names, c.as_str().unwrap())).collect();
                            B::Fn { k: a[2].as_i64().unwrap(), calls, reads }
                        };
                        self.model.bindings[b].val = val;
                        self.model.bindings[b].const_at_def = a[0] == "def";
                        self.model.bindings[b].access = match a.get(5).and_then(|x| x.as_str()).unwrap_or("call") {
                            "caller" => 1,
                            "boxed" => 2,
                            "vec" => 3,
                            "setter" => 4,
                            _ => 0,
                        };
                    }
                }
            }
            "callset" => {
                if executed {
                    if let Some(sb) = names_at(names, a[1].as_str().unwrap()) {
                        if self.model.bindings[sb].access == 4 {
                            if let B::Fn { k, reads, .. } = self.model.bindings[sb].val.clone() {
                                if let Some(target) = reads.first() {
                                    self.model.bindings[*target].val = B::Int(k);
                                    if self.model.bindings[*target].def_eval != eval {
                                        self.model.bindings[*target].assigned_later = true;
                                    }
                                }
                            }
                        }
                    }
                }
            }
            "set" => {
                if executed {
                    if let Some(b) = names_at(names, a[1].as_str().unwrap()) {
                        if !matches!(self.model.bindings[b].val, B::Unbound) || true {
                            self.model.bindings[b].val = B::Int(a[2].as_i64().unwrap());
                            if self.model.bindings[b].def_eval != eval {
                                self.model.bindings[b].assigned_later = true;
                            }
                        }
                    }
                }
            }
            _ => {}
        }
    }

    fn probe_one(&mut self, name: &str, b: usize, step: usize, context: &str) {
        let is_fn = matches!(self.model.bindings[b].val, B::Fn { .. });
        if self.model.bindings[b].access == 4 {
            return;
        }
        let src = access_expr(name, is_fn, self.model.bindings[b].access);
        let expect = self.model.value(b);
        let got = vmh::eval(self.engine, &src).map(|v| v.last().cloned().unwrap_or_default());
        let ok = match (&expect, &got) {
            (Ok(e), Ok(g)) => &e.to_string() == g,
            (Err(_), Err(_)) => true,
            // a name whose definition never ran: an error or the empty slot
            (Err(_), Ok(g)) => g == "#<void>",
            _ => false,
        };
        if ok || self.model.depends_on_tainted(b) {
            return;
        }
        // classify
        let class = if matches!(&got, Ok(g) if g.contains("from-rejected-program")) {
            "macro-from-rejected-program"
        } else if is_fn && self.model.folded_read(b) {
            "same-eval-constant-folded"
        } else if context == "after-runtime-error-define" {
            "redefine-after-runtime-error"
        } else if context == "after-compile-error" {
            "compile-error-rollback"
        } else {
            "other"
        };
        let detail = format!(
            "step {}: {} evaluates to {:?}, the binding model says {:?} ({})",
            step, src, got, expect, context
        );
        if class == "same-eval-constant-folded" || class == "redefine-after-runtime-error" || class == "macro-from-rejected-program" {
            // recorded defect classes: note, adopt what the engine does for
            // this binding and go on, so that other violations are still seen
            self.known_hits.push((format!("C06/wrong-value/{}", class), detail));
            self.model.tainted.insert(b);
            report::probe(&format!("known.{}", class));
            return;
        }
        report::violation(&format!("C06/wrong-value/{}", class), detail);
    }

    fn probe_all(&mut self, step: usize, context: &str) {
        let names: Vec<(String, usize)> = self.model.current.iter().map(|(k, v)| (k.clone(), *v)).collect();
        // fast path: everything in one evaluation when nothing is unbound or tainted
        let names: Vec<(String, usize)> = names.into_iter().filter(|(_, b)| self.model.bindings[*b].access != 4).collect();
        let simple = names.iter().all(|(_, b)| self.model.value(*b).is_ok() && !self.model.depends_on_tainted(*b));
        if simple && !names.is_empty() {
            let mut src = String::from("(list");
            let mut exp = String::from("(");
            for (i, (n, b)) in names.iter().enumerate() {
                let is_fn = matches!(self.model.bindings[*b].val, B::Fn { .. });
                src.push(' ');
                src.push_str(&access_expr(n, is_fn, self.model.bindings[*b].access));
                if i > 0 {
                    exp.push(' ');
                }
                exp.push_str(&self.model.value(*b).unwrap().to_string());
            }
            src.push(')');
            exp.push(')');
            if let Ok(v) = vmh::eval(self.engine, &src) {
                if v.last().map(|s| s.as_str()) == Some(exp.as_str()) {
                    return;
                }
            }
        }
        for (n, b) in names {
            self.probe_one(&n, b, step, context);
        }
    }
}

fn access_expr(name: &str, is_fn: bool, access: u8) -> String {
    if !is_fn {
        return name.to_string();
    }
    match access {
        2 => format!("((unbox {}))", name),
        3 => format!("((vector-ref {} 0))", name),
        _ => format!("({})", name),
    }
}

fn names_at(names: &BTreeMap<String, usize>, n: &str) -> Option<usize> {
    names.get(n).copied()
}

impl Scenario for C06 {
    fn name(&self) -> &'static str {
        "c06-history"
    }
    fn property(&self) -> &'static str {
        "C06"
    }
    fn setup(&self) {
        vmh::build_prototypes(true, true);
    }
    fn default_runs(&self, thorough: bool) -> u64 {
        if thorough { 120_000 } else { 2_400 }
    }
    fn timeout_ms(&self) -> u64 {
        60_000
    }

    fn child(&self, spec: &Spec) {
        let mut wrng = Rng::derive(spec.seed, spec.index, 1);
        let w = if spec.overrides.is_null() { gen_history(&mut wrng, spec.tier_thorough) } else { spec.overrides.clone() };
        report::set_workload(w.clone());
        if spec.gen_only {
            return;
        }
        let mut faults = vmh::default_faults(spec.seed, spec.index);
        faults.recycle_threshold = w["threshold"].as_u64().unwrap_or(100) as usize;
        faults.gc_num = w["gc"][0].as_u64().unwrap_or(0);
        faults.gc_den = w["gc"][1].as_u64().unwrap_or(64);
        faults.heap_chunk = 256;
        let mut engine = vmh::start(
            spec,
            vmh::VmOptions {
                property: "C06",
                jit: w["jit"].as_bool().unwrap_or(true),
                faults,
                yield_at_dispatch: false,
                max_steps: 500_000_000,
                expected_steps: 20_000,
                on_stop: report::stop_is_harness_error,
                panic_class: |m| vmh::panic_signature("C06", m),
            },
        );
        vmh::set_context("prelude");
        if let Err(e) = vmh::eval(&mut engine, "(define (make-caller thunk) (lambda () (thunk)))") {
            report::harness_error(format!("prelude failed: {}", e));
        }
        let steps = w["steps"].as_array().cloned().unwrap_or_default();
        let mut run = Run { engine: &mut engine, model: Model::default(), known_hits: Vec::new() };
        let long = steps.len() > 50;
        let mut recycled_before = 0u64;
        for (si, st) in steps.iter().enumerate() {
            let forms = st.as_array().cloned().unwrap_or_default();
            run.model.evals += 1;
            let eval = run.model.evals;
            // host-side steps
            if forms.len() == 1 && (forms[0][0] == "hostdef" || forms[0][0] == "hostset") {
                let name = forms[0][1].as_str().unwrap().to_string();
                let v = forms[0][2].as_i64().unwrap();
                if run.model.poisoned.contains(&name) {
                    if forms[0][0] == "hostset" {
                        report::probe("step.skipped-poisoned-name");
                        continue;
                    }
                    run.model.poisoned.remove(&name);
                }
                vmh::set_context("host");
                if forms[0][0] == "hostdef" {
                    run.engine.register_value(&name, SteelVal::IntV(v as isize));
                    run.model.bindings.push(Binding { val: B::Int(v), def_eval: eval, assigned_later: false, const_at_def: false, access: 0 });
                    let id = run.model.bindings.len() - 1;
                    run.model.current.insert(name, id);
                } else {
                    let r = run.engine.update_value(&name, SteelVal::IntV(v as isize)).is_some();
                    match run.resolve(&name) {
                        Some(b) if r => {
                            run.model.bindings[b].val = B::Int(v);
                            if run.model.bindings[b].def_eval != eval {
                                run.model.bindings[b].assigned_later = true;
                            }
                        }
                        Some(_) => report::violation(
                            "C06/host-update-refused",
                            format!("step {}: update_value({}) returned None for a defined name", si, name),
                        ),
                        None => {}
                    }
                }
                run.probe_all(si, "after-host-step");
                continue;
            }
            // a step that refers to a name whose state is unknown is skipped
            // (defining it anew is fine and clears the flag)
            if !run.model.poisoned.is_empty() {
                let mut skip = false;
                for f in forms.iter() {
                    let defines = f[0] == "def" || f[0] == "deffn";
                    if let Some(n) = f[1].as_str() {
                        if run.model.poisoned.contains(n) && !defines {
                            skip = true;
                        }
                    }
                    if f[0] == "deffn" {
                        for r in f[3].as_array().unwrap().iter().chain(f[4].as_array().unwrap().iter()) {
                            if run.model.poisoned.contains(r.as_str().unwrap()) {
                                skip = true;
                            }
                        }
                    }
                }
                if skip {
                    report::probe("step.skipped-poisoned-name");
                    continue;
                }
            }
            let free_slots_before = run.engine.verif_symbol_slots().0;
            // compile-time view: names resolve in order; a define creates a new binding
            let (fail, fail_at) = class_of_failure(&forms);
            let mut names = run.model.current.clone();
            let mut new_ids: BTreeMap<usize, usize> = BTreeMap::new();
            let mut names_per_form: Vec<BTreeMap<String, usize>> = Vec::new();
            let saved_model = run.model.clone();
            for (i, f) in forms.iter().enumerate() {
                if f[0] == "def" || f[0] == "deffn" {
                    run.model.bindings.push(Binding { val: B::Unbound, def_eval: eval, assigned_later: false, const_at_def: false, access: 0 });
                    let id = run.model.bindings.len() - 1;
                    new_ids.insert(i, id);
                    if f[0] == "def" {
                        // a variable definition is visible to later forms only
                        names_per_form.push(names.clone());
                        names.insert(f[1].as_str().unwrap().to_string(), id);
                        continue;
                    }
                    // a function sees itself (not used by the generator) and everything before
                    names.insert(f[1].as_str().unwrap().to_string(), id);
                }
                names_per_form.push(names.clone());
            }
            // Names defined anywhere in this evaluation refer to the new binding
            // throughout it: inside function bodies regardless of order, at top
            // level only after the defining form (before it: compile-time error).
            let mut defined_here: BTreeMap<String, (usize, usize)> = BTreeMap::new();
            for (i, f) in forms.iter().enumerate() {
                if f[0] == "def" || f[0] == "deffn" {
                    defined_here.insert(f[1].as_str().unwrap().to_string(), (i, new_ids[&i]));
                }
            }
            let mut unresolved = false;
            for (i, f) in forms.iter().enumerate() {
                if f[0] == "deffn" {
                    for (n, (_, id)) in defined_here.iter() {
                        names_per_form[i].insert(n.clone(), *id);
                    }
                    let n = &names_per_form[i];
                    for r in f[3].as_array().unwrap().iter().chain(f[4].as_array().unwrap().iter()) {
                        if !n.contains_key(r.as_str().unwrap()) {
                            unresolved = true;
                        }
                    }
                }
                if f[0] == "callset" && !names_per_form[i].contains_key(f[1].as_str().unwrap()) {
                    unresolved = true;
                }
                if f[0] == "callset" {
                    // calling something that is not a setter is still a valid call
                    if let Some(b) = names_per_form[i].get(f[1].as_str().unwrap()) {
                        if !new_ids.values().any(|x| x == b) && run.model.bindings[*b].access != 4 {
                            unresolved = false || unresolved;
                        }
                    }
                }
                if f[0] == "set" {
                    let name = f[1].as_str().unwrap();
                    if let Some((pos, _)) = defined_here.get(name) {
                        if *pos > i {
                            unresolved = true;
                        }
                    }
                    if !names_per_form[i].contains_key(name) {
                        unresolved = true;
                    }
                }
            }
            let (fail, fail_at) = if unresolved { ("ct", 0) } else { (fail, fail_at) };
            // a function that (through names defined in this same evaluation)
            // ends up calling itself would not terminate: skip such a step
            {
                let mut edges: BTreeMap<usize, Vec<usize>> = BTreeMap::new();
                for (i, f) in forms.iter().enumerate() {
                    if f[0] == "deffn" {
                        let id = new_ids[&i];
                        let tgt: Vec<usize> = f[3].as_array().unwrap().iter().filter_map(|c| names_per_form[i].get(c.as_str().unwrap()).copied()).collect();
                        edges.insert(id, tgt);
                    }
                }
                let mut cyclic = false;
                for start in edges.keys() {
                    let mut stack = vec![*start];
                    let mut seen = BTreeSet::new();
                    while let Some(x) = stack.pop() {
                        for y in edges.get(&x).into_iter().flatten() {
                            if y == start {
                                cyclic = true;
                            }
                            if seen.insert(*y) {
                                stack.push(*y);
                            }
                        }
                    }
                }
                if cyclic {
                    run.model = saved_model;
                    run.model.evals = eval;
                    report::probe("step.skipped-call-cycle");
                    continue;
                }
            }
            let src: Vec<String> = forms.iter().map(render).collect();
            let program = src.join("\n");
            vmh::set_context(match fail {
                "ct" => "compile-error",
                "rt" => "runtime-error",
                _ => "ok",
            });
            let res = vmh::eval(run.engine, &program);
            let mut context = "after-ok";
            match (fail, &res) {
                ("ok", Ok(_)) => {
                    for (i, f) in forms.iter().enumerate() {
                        let n = names_per_form[i].clone();
                        run.apply(f, &n, &new_ids, i, true);
                        if f[0] == "def" || f[0] == "deffn" {
                            run.model.poisoned.remove(f[1].as_str().unwrap());
                        }
                    }
                    run.model.current = names;
                }
                ("ok", Err(e)) => {
                    report::violation(
                        "C06/unexpected-error",
                        format!("step {}: {} failed: {}", si, program.replace('\n', " "), e),
                    );
                }
                ("ct", Err(_)) => {
                    // nothing of this evaluation takes effect
                    run.model = saved_model;
                    run.model.evals = eval;
                    context = "after-compile-error";
                    let defines: Vec<String> = forms
                        .iter()
                        .filter(|f| f[0] == "def" || f[0] == "deffn")
                        .map(|f| f[1].as_str().unwrap().to_string())
                        .collect();
                    if !defines.is_empty() {
                        let _ = free_slots_before;
                        // Every name the failed evaluation tried to define must be
                        // what it was before (also when the definition had been
                        // given a recycled slot).
                        vmh::set_context("probe");
                        for n in defines {
                            if run.model.poisoned.contains(&n) {
                                continue;
                            }
                            match run.model.current.get(&n).copied() {
                                Some(b) => run.probe_one(&n, b, si, "after-compile-error"),
                                None => {
                                    let got = vmh::eval(run.engine, &n);
                                    if let Ok(v) = got {
                                        report::violation(
                                            "C06/wrong-value/compile-error-rollback",
                                            format!("step {}: after the failed evaluation {} the name {} evaluates to {:?}, but it was never defined", si, program.replace('\n', " "), n, v),
                                        );
                                    }
                                }
                            }
                        }
                    }
                }
                ("rt", Err(_)) => {
                    // forms before the failing one took effect; names defined by
                    // later forms exist (compile time) but are unbound
                    let mut defines_after = false;
                    for (i, f) in forms.iter().enumerate() {
                        let n = names_per_form[i].clone();
                        run.apply(f, &n, &new_ids, i, i < fail_at);
                        if i > fail_at && (f[0] == "def" || f[0] == "deffn") {
                            defines_after = true;
                        }
                    }
                    // what the property asks for: a name whose (re)definition
                    // never ran keeps its earlier meaning
                    let mut cur = saved_model.current.clone();
                    for (i, f) in forms.iter().enumerate() {
                        if i < fail_at && (f[0] == "def" || f[0] == "deffn") {
                            cur.insert(f[1].as_str().unwrap().to_string(), new_ids[&i]);
                        }
                    }
                    run.model.current = cur;
                    context = if defines_after { "after-runtime-error-define" } else { "after-runtime-error" };
                }
                (_, Ok(v)) => {
                    report::violation(
                        "C06/failing-evaluation-succeeded",
                        format!("step {}: {} returned {:?}", si, program.replace('\n', " "), v),
                    );
                }
                _ => {}
            }
            let st_state = run.engine.verif_stack_state();
            if st_state.stack != 0 || st_state.frames != 0 {
                report::violation(
                    "C06/stack-residue",
                    format!("step {}: stacks not empty after evaluation: {:?}", si, st_state),
                );
            }
            vmh::set_context("probe");
            if context == "after-runtime-error-define" {
                // Names (re)defined by forms after the failing one. The property
                // asks that a name whose redefinition never ran keeps its earlier
                // meaning; the engine leaves it without a value (recorded
                // defect). Either way the state of these names is not relied on
                // afterwards: they are set aside until defined anew.
                for (i, f) in forms.iter().enumerate() {
                    if i > fail_at && (f[0] == "def" || f[0] == "deffn") {
                        let name = f[1].as_str().unwrap().to_string();
                        if let Some(b) = run.model.current.get(&name).copied() {
                            run.probe_one(&name, b, si, context);
                        }
                        run.model.poisoned.insert(name.clone());
                        run.model.current.remove(&name);
                    }
                }
                run.probe_all(si, "after-runtime-error");
            } else if !long || si % 8 == 0 || si + 1 == steps.len() || context != "after-ok" {
                run.probe_all(si, context);
            } else {
                // long histories: probe what this step touched every time
                for f in forms.iter() {
                    if let Some(n) = f[1].as_str() {
                        if let Some(b) = run.resolve(n) {
                            run.probe_one(n, b, si, context);
                        }
                    }
                }
            }
            let _ = &mut recycled_before;
        }
        let known = run.known_hits.clone();
        let nbind = run.model.bindings.len();
        drop(run);
        // a global bound to a built-in procedure, called by functions compiled
        // earlier (in tail and in non-tail position, several times, so that the
        // native tier has compiled them), then assigned, then redefined
        if known.is_empty() {
            let (p1, p2, p3, e1, e2, e3) = match spec.index % 3 {
                0 => ("car", "cadr", "caddr", 1, 2, 3),
                1 => ("length", "car", "cadr", 3, 1, 2),
                _ => ("cadr", "caddr", "length", 2, 3, 3),
            };
            vmh::set_context("primitive-alias");
            let pieces: Vec<(String, Option<String>)> = vec![
                (format!("(define palias {})", p1), None),
                ("(define (puse xs) (+ 0 (palias xs)))\n(define (puse-tail xs) (palias xs))\n(define (puse-arg xs) (list (palias xs)))".to_string(), None),
                ("(define (ploop n acc) (if (= n 0) acc (ploop (- n 1) (+ (puse (list 1 2 3)) (puse-tail (list 1 2 3)) (car (puse-arg (list 1 2 3)))))))\n(ploop 40 0)".to_string(), Some((3 * e1).to_string())),
                (format!("(set! palias {})", p2), None),
                ("(list (puse (list 1 2 3)) (puse-tail (list 1 2 3)) (puse-arg (list 1 2 3)) (palias (list 1 2 3)))".to_string(), Some(format!("({e} {e} ({e}) {e})", e = e2))),
                (format!("(define palias {})", p3), None),
                ("(list (puse (list 1 2 3)) (puse-tail (list 1 2 3)) (palias (list 1 2 3)))".to_string(), Some(format!("({} {} {})", e2, e2, e3))),
            ];
            for (src, expect) in pieces {
                let src = src.replace("\\n", "\n");
                match (vmh::eval(&mut engine, &src).map(|v| v.last().cloned().unwrap_or_default()), expect) {
                    (Ok(got), Some(exp)) if got != exp => report::violation(
                        "C06/wrong-value/global-bound-to-a-built-in-procedure",
                        format!("{} gave {}, the binding model says {} (palias was {} / set! to {} / redefined as {})", src, got, exp, p1, p2, p3),
                    ),
                    (Err(e), _) => report::violation("C06/wrong-value/global-bound-to-a-built-in-procedure", format!("{} failed: {}", src, e)),
                    _ => {}
                }
            }
        }
        report::set_extra("bindings", json!(nbind));
        report::set_nontrivial(nbind >= 3);
        if nbind > 20 {
            report::probe("history.more-than-20-bindings");
        }
        if nbind > 100 {
            report::probe("history.more-than-100-bindings");
        }
        if let Some((sig, detail)) = known.into_iter().next() {
            report::violation(&sig, detail);
        }
    }

    fn shrink(&self, w: &Value) -> Vec<Value> {
        let mut out = Vec::new();
        let n = w["steps"].as_array().map(|a| a.len()).unwrap_or(0);
        // halves first, then single steps
        if n > 8 {
            let mut c = w.clone();
            c["steps"].as_array_mut().unwrap().truncate(n / 2);
            out.push(c);
            let mut c = w.clone();
            c["steps"].as_array_mut().unwrap().drain(0..n / 2);
            out.push(c);
        }
        for i in (0..n).rev() {
            let mut c = w.clone();
            c["steps"].as_array_mut().unwrap().remove(i);
            out.push(c);
        }
        out
    }

    fn rule(&self) -> String {
        "each evaluation = one forked run of a generated history of 5-400 top-level evaluations on one engine (define variable / define function reading and calling earlier globals / redefine / set! / multi-form programs / failing programs (compile-time free identifier, run-time error in form k, with or without definitions before and after the failing form) / host register_value + update_value / explicit collections), global-slot recycling threshold in {1,2,5,20,100}, JIT on/off, occasional forced collections; after every step every live function is called and every live variable read and compared with the binding model; non-trivial = at least 3 bindings created; distinct = distinct (workload, event trace)".into()
    }
    fn assumptions(&self) -> Vec<String> {
        vec![
            "module requires are exercised by the C14 check, not here".into(),
            "within one evaluation the generator references a name only after its definition in that evaluation".into(),
        ]
    }
    fn components(&self) -> Value {
        json!({"real": ["compiler (symbol map, slot recycling, rollback)", "VM", "JIT (per run on/off)", "collector"],
               "simulated": ["host application (register_value/update_value)", "recycling threshold knob", "collection timing"]})
    }
}
