//! C04 — the collector never reclaims or overwrites reachable mutable storage.
//!
//! Fault: the collection schedule (a full collection forced at PRNG-chosen
//! allocations, up to every single allocation, plus explicit requests).
//! Workload: generated programs that park the only reference to mutable
//! storage in one root class, churn the allocator so freed slots are re-used,
//! then read everything back. Oracle: generator-known contents, the
//! "stale slot touched" monitor, slot accounting after the run.

use crate::report;
use crate::rng::Rng;
use crate::runner::{Scenario, Spec};
use crate::vmh;
use serde_json::{json, Value};
use steel::rvals::IntoSteelVal;
use steel::SteelVal;

pub struct C04;

pub const PRELUDE: &str = r#"
(define (churn n) (let loop ((i 0)) (when (< i n) (box i) (mutable-vector i i) (loop (+ i 1)))))
(struct cell (a b) #:mutable)
(define (mk-frame b) (lambda (thunk) (let ((r (thunk))) (cons (unbox b) r))))
(define kcell (box #f))
(define (capture-here) (call/cc (lambda (c) (set-box! kcell c) 1)))
(define (holder b) (lambda () (let ((v (capture-here))) (+ v (unbox b)))))
(define (rec-keep base n)
  (if (= n 0)
      '()
      (let ((b (box (+ base n))))
        (churn 1)
        (let ((r (rec-keep base (- n 1))))
          (cons (unbox b) r)))))
"#;

pub struct Gen<'a> {
    pub rng: &'a mut Rng,
    pub next: i64,
    pub kmax: u64,
}

impl<'a> Gen<'a> {
    pub fn val(&mut self) -> i64 {
        self.next += 1 + self.rng.below(3) as i64;
        self.next
    }
    pub fn churn(&mut self) -> String {
        match self.rng.below(8) {
            0 => "(#%gc-collect)".to_string(),
            1 => "(begin)".to_string(),
            _ => format!("(churn {})", self.rng.range(1, self.kmax)),
        }
    }
}

fn list_str(xs: &[i64]) -> String {
    let v: Vec<String> = xs.iter().map(|x| x.to_string()).collect();
    format!("({})", v.join(" "))
}

pub const KINDS: &[&str] = &[
    "pending-arg", "let-local", "closure-capture", "assigned-captured", "continuation-open",
    "continuation-reentered", "handler-capture", "global", "tls", "nested-containers",
    "transducer-state", "being-allocated", "struct-field", "vector-set", "box-chain",
    "map-callback", "dynamic-wind", "apply-args", "frames-deep", "make-vector-fill",
    "continuation-escaped", "closure-in-container", "host-rooted", "frame-closure-temp",
    "continuation-frame-capture", "thread-result", "channel-in-flight", "promise", "parameterize",
    "rest-args", "stream", "hash-value", "hashset-member", "immutable-struct-field",
];

/// One item: (kind, definitions to run first, expression, expected rendering).
pub fn gen_item(g: &mut Gen, kind: &str, uid: usize) -> (String, String, String) {
    let (a, b, c) = (g.val(), g.val(), g.val());
    let (k1, k2, k3) = (g.churn(), g.churn(), g.churn());
    match kind {
        "pending-arg" => (
            String::new(),
            format!("((lambda (x y z) (list (unbox x) y (unbox z))) (box {a}) (begin {k1} {b}) (box {c}))"),
            list_str(&[a, b, c]),
        ),
        "let-local" => (
            String::new(),
            format!("(let ((p (box {a})) (v (mutable-vector {b} {c}))) {k1} (list (unbox p) (mut-vector-ref v 0) (mut-vector-ref v 1)))"),
            list_str(&[a, b, c]),
        ),
        "closure-capture" => (
            String::new(),
            format!("(let ((f (let ((p (box {a}))) (lambda () (unbox p))))) {k1} (list (f)))"),
            list_str(&[a]),
        ),
        "assigned-captured" => (
            String::new(),
            format!("(let ((x {a})) (let ((inc (lambda () (set! x (+ x 1)) x))) {k1} (inc) {k2} (list (inc) x)))"),
            list_str(&[a + 2, a + 2]),
        ),
        "continuation-open" => (
            String::new(),
            format!("(let ((p (box {a}))) (list (+ 1 (call/cc (lambda (k) {k1} (k (unbox p)))))))"),
            list_str(&[a + 1]),
        ),
        "continuation-reentered" => (
            String::new(),
            format!("(let ((p (box {a})) (k #f) (n 0)) (let ((r (+ (unbox p) (call/cc (lambda (c) (set! k c) 0))))) {k1} (if (< n 2) (begin (set! n (+ n 1)) (k n)) (list r (unbox p)))))"),
            list_str(&[a + 2, a]),
        ),
        "continuation-escaped" => (
            format!("(define esc{uid} #f)"),
            format!("(let ((p (box {a}))) (let ((r (call/cc (lambda (c) (set! esc{uid} c) 0)))) {k1} (list r (unbox p))))"),
            list_str(&[0, a]),
        ),
        "handler-capture" => (
            String::new(),
            format!("(let ((hb (box {a}))) (list (with-handler (lambda (e) {k1} (unbox hb)) (begin {k2} (error \"boom\")))))"),
            list_str(&[a]),
        ),
        // the result of a thread that has finished and has not been joined yet: the
        // program reaches it through the thread handle
        "thread-result" => (
            format!("(define th{uid} (spawn-native-thread (lambda () (list (box {a}) (mutable-vector {b} {c})))))\n(define (wait{uid}) (if (thread-finished? th{uid}) 0 (wait{uid})))"),
            format!("(begin (wait{uid}) {k1} (let ((r (thread-join! th{uid}))) {k2} (list (unbox (car r)) (mut-vector-ref (cadr r) 0) (mut-vector-ref (cadr r) 1))))"),
            list_str(&[a, b, c]),
        ),
        // a value that has been sent and not received yet: the program reaches it
        // through the receiving end it holds
        "channel-in-flight" => (
            format!("(define ch{uid} (channels/new))\n(channel/send (channels-sender ch{uid}) (list (box {a}) (mutable-vector {b} {c})))"),
            format!("(begin {k1} (let ((r (channel/recv (channels-receiver ch{uid})))) {k2} (list (unbox (car r)) (mut-vector-ref (cadr r) 0) (mut-vector-ref (cadr r) 1))))"),
            list_str(&[a, b, c]),
        ),
        "promise" => (
            String::new(),
            format!("(let ((p (delay (begin {k1} (list (box {a}) (mutable-vector {b})))))) (force p) {k2} (let ((r (force p))) {k3} (list (unbox (car r)) (mut-vector-ref (cadr r) 0))))"),
            list_str(&[a, b]),
        ),
        "parameterize" => (
            format!("(define pr{uid} (make-parameter (box {a})))"),
            format!("(begin {k1} (let ((o (unbox (pr{uid})))) (parameterize ((pr{uid} (box {b}))) {k2} (list o (unbox (pr{uid})) (parameterize ((pr{uid} (mutable-vector {c}))) {k3} (mut-vector-ref (pr{uid}) 0))))))"),
            list_str(&[a, b, c]),
        ),
        "rest-args" => (
            format!("(define (rest{uid} x . xs) {k1} (cons (unbox x) (map unbox xs)))"),
            format!("(begin {k2} (rest{uid} (box {a}) (box {b}) (begin {k3} (box {c}))))"),
            list_str(&[a, b, c]),
        ),
        "stream" => (
            format!("(define st{uid} (let ((q (mutable-vector {b}))) (stream-cons (box {a}) (lambda () (stream-cons q (lambda () empty-stream))))))"),
            format!("(begin {k1} (let ((x (unbox (stream-car st{uid}))) (rest ((#%stream-cdr st{uid})))) {k2} (list x (mut-vector-ref (stream-car rest) 0))))"),
            list_str(&[a, b]),
        ),
        "hash-value" => (
            String::new(),
            format!("(let* ((h (hash 'a (box {a}))) (h2 (hash-insert h 'b (mutable-vector {b} {c})))) {k1} (let ((h3 (hash-insert h2 'c (box 0)))) {k2} (list (unbox (hash-ref h3 'a)) (mut-vector-ref (hash-ref h2 'b) 0) (mut-vector-ref (hash-ref h3 'b) 1))))"),
            list_str(&[a, b, c]),
        ),
        "hashset-member" => (
            String::new(),
            format!("(let ((s (hashset (box {a})))) {k1} (let ((s2 (hashset-insert s (box {b})))) {k2} (list (apply + (map unbox (hashset->list s))) (apply + (map unbox (hashset->list s2))))))"),
            list_str(&[a, a + b]),
        ),
        "immutable-struct-field" => (
            format!("(struct imm{uid} (a b))"),
            format!("(let ((s (imm{uid} (box {a}) (vector (box {b}) (mutable-vector {c}))))) {k1} (list (unbox (imm{uid}-a s)) (unbox (vector-ref (imm{uid}-b s) 0)) (mut-vector-ref (vector-ref (imm{uid}-b s) 1) 0)))"),
            list_str(&[a, b, c]),
        ),
        "global" => (
            format!("(define g{uid} (box {a}))\n(define gv{uid} (mutable-vector (box {b}) {c}))"),
            format!("(begin {k1} (list (unbox g{uid}) (unbox (mut-vector-ref gv{uid} 0)) (mut-vector-ref gv{uid} 1)))"),
            list_str(&[a, b, c]),
        ),
        "tls" => (
            format!("(define t{uid} (make-tls (box {a})))"),
            format!("(begin {k1} (let ((r (unbox (get-tls t{uid})))) (set-tls! t{uid} (box {b})) {k2} (list r (unbox (get-tls t{uid})))))"),
            list_str(&[a, b]),
        ),
        "nested-containers" => (
            String::new(),
            format!("(let ((x (list (hash 'k (mutable-vector (cell (box {a}) {b}))) (vector (box {c}))))) {k1} (list (unbox (cell-a (mut-vector-ref (hash-ref (car x) 'k) 0))) (cell-b (mut-vector-ref (hash-ref (car x) 'k) 0)) (unbox (vector-ref (cadr x) 0))))"),
            list_str(&[a, b, c]),
        ),
        "transducer-state" => {
            let n = g.rng.range(2, 5) as i64;
            let exp: Vec<i64> = (0..n).map(|i| a + i).collect();
            (
                String::new(),
                format!("(map unbox (transduce (range 0 {n}) (mapping (lambda (i) {k1} (box (+ {a} i)))) (into-list)))"),
                list_str(&exp),
            )
        }
        "being-allocated" => (
            String::new(),
            format!("(let ((v (mutable-vector (box {a}) (box {b}) (box (box {c}))))) (list (unbox (mut-vector-ref v 0)) (unbox (mut-vector-ref v 1)) (unbox (unbox (mut-vector-ref v 2)))))"),
            list_str(&[a, b, c]),
        ),
        "struct-field" => (
            String::new(),
            format!("(let ((s (cell (box {a}) {b}))) {k1} (set-cell-b! s (box {c})) {k2} (list (unbox (cell-a s)) (unbox (cell-b s))))"),
            list_str(&[a, c]),
        ),
        "vector-set" => (
            String::new(),
            format!("(let ((v (mutable-vector 0 0))) (vector-set! v 0 (box {a})) {k1} (vector-set! v 1 (box {b})) {k2} (list (unbox (mut-vector-ref v 0)) (unbox (mut-vector-ref v 1))))"),
            list_str(&[a, b]),
        ),
        "box-chain" => (
            String::new(),
            format!("(let ((p (box 0))) (set-box! p (box {a})) {k1} (let ((q (unbox p))) (set-box! q {b}) {k2} (list (unbox (unbox p)))))"),
            list_str(&[b]),
        ),
        "map-callback" => {
            let n = g.rng.range(2, 5) as i64;
            let exp: Vec<i64> = (0..n).map(|i| a + i).collect();
            (
                String::new(),
                format!("(map (lambda (p) {k1} (unbox p)) (map (lambda (i) (box (+ {a} i))) (range 0 {n})))"),
                list_str(&exp),
            )
        }
        "dynamic-wind" => (
            String::new(),
            format!("(let ((p (box {a}))) (dynamic-wind (lambda () {k1}) (lambda () {k2} (list (unbox p))) (lambda () {k3})))"),
            list_str(&[a]),
        ),
        "apply-args" => (
            String::new(),
            format!("(apply (lambda (x y) {k1} (list (unbox x) (unbox y))) (list (box {a}) (box {b})))"),
            list_str(&[a, b]),
        ),
        "frames-deep" => {
            let n = g.rng.range(2, 12) as i64;
            let exp: Vec<i64> = (0..n).map(|i| a + n - i).collect();
            (String::new(), format!("(rec-keep {a} {n})"), list_str(&exp))
        }
        "make-vector-fill" => (
            String::new(),
            format!("(let ((v (make-vector 3 (box {a})))) {k1} (list (unbox (mut-vector-ref v 0)) (unbox (mut-vector-ref v 2))))"),
            list_str(&[a, a]),
        ),
        "frame-closure-temp" => (
            // two instances of one lambda are active frames; each instance's box
            // is referenced only from its frame's function
            String::new(),
            format!("((mk-frame (box {a})) (lambda () ((mk-frame (box {b})) (lambda () (begin {k1} '())))))"),
            list_str(&[a, b]),
        ),
        "continuation-frame-capture" => (
            // a continuation captured under a closure frame; afterwards the
            // closure (and the box it captured) is reachable only through the
            // saved frames of the continuation, which is then re-entered
            String::new(),
            format!("(let ((n (box 0))) (let ((r ((holder (box {a}))))) {k1} (if (= (unbox n) 0) (begin (set-box! n 1) {k2} ((unbox kcell) 5)) (list r))))"),
            list_str(&[a + 5]),
        ),
        "closure-in-container" => (
            String::new(),
            format!("(let ((fs (list (let ((p (box {a}))) (lambda () (unbox p))) (let ((q (mutable-vector {b}))) (lambda () (mut-vector-ref q 0)))))) {k1} (map (lambda (f) (f)) fs))"),
            list_str(&[a, b]),
        ),
        _ => (String::new(), format!("(list {a})"), list_str(&[a])),
    }
}

fn gen_workload(rng: &mut Rng, thorough: bool) -> Value {
    let jit = rng.chance(1, 2);
    let (gn, gd) = *rng.pick(&[(0u64, 1u64), (1, 64), (1, 8), (1, 2), (1, 1), (1, 1)]);
    let kmax = match (gn, gd) {
        (1, 1) => 4,
        (1, 2) => 8,
        _ => {
            if thorough {
                60
            } else {
                30
            }
        }
    };
    let mut g = Gen { rng, next: 100, kmax };
    let n = g.rng.range(2, 7) as usize;
    // swarm: a subset of kinds per run
    let mut kinds: Vec<&str> = KINDS.to_vec();
    g.rng.shuffle(&mut kinds);
    let keep = g.rng.range(1, 6) as usize;
    kinds.truncate(keep);
    // debugging aid: restrict the root classes / force the tier
    let only = std::env::var("VERIF_C04_KINDS").unwrap_or_default();
    if !only.is_empty() {
        kinds = KINDS.iter().copied().filter(|k| only.split(',').any(|o| o == *k)).collect();
    }
    let jit = match std::env::var("VERIF_C04_JIT").as_deref() {
        Ok("1") => true,
        Ok("0") => false,
        _ => jit,
    };
    let mut items = Vec::new();
    for uid in 0..n {
        let kind = *g.rng.pick(&kinds);
        let (defs, expr, expect) = gen_item(&mut g, kind, uid);
        // read back now, or after all other items have run (globals/tls/escaped)
        let late = !defs.is_empty() && g.rng.chance(1, 2);
        items.push(json!({"kind": kind, "defs": defs, "expr": expr, "expect": expect, "late": late}));
    }
    let group = g.rng.chance(1, 3); // all expressions in one evaluation
    let chunk = *g.rng.pick(&[64u64, 64, 256, 1024, 4096]);
    json!({"jit": jit, "gc": [gn, gd], "group": group, "heap_chunk": chunk, "items": items})
}

/// Root classes with a recorded defect (known_findings.json): evaluated on
/// their own and after everything else, so that they neither hide nor get
/// mixed into other results.
pub const ISOLATED: &[&str] = &["transducer-state", "thread-result", "channel-in-flight"];
pub const ISOLATED_JIT: &[&str] = &[];

fn isolated(kind: &str, jit: bool) -> bool {
    ISOLATED.contains(&kind) || (jit && ISOLATED_JIT.contains(&kind))
}

fn check(kind: &str, expr: &str, expect: &str, got: Result<Vec<String>, String>) {
    let kind = &format!("{}", vmh::context());
    match got {
        Ok(vs) => {
            let last = vs.last().cloned().unwrap_or_default();
            if last != expect {
                report::violation(
                    &format!("C04/{}/wrong-contents", kind),
                    format!("{} evaluated to {} but the stored contents are {}", expr, last, expect),
                );
            }
        }
        Err(e) => {
            report::violation(
                &format!("C04/{}/error-reading-reachable", kind),
                format!("{} failed: {} (expected {})", expr, e, expect),
            );
        }
    }
}

impl Scenario for C04 {
    fn name(&self) -> &'static str {
        "c04-gc"
    }
    fn timeout_ms(&self) -> u64 {
        // runs with a collection at every allocation take seconds on a loaded machine
        150_000
    }
    fn property(&self) -> &'static str {
        "C04"
    }
    fn setup(&self) {
        vmh::build_prototypes(true, true);
    }
    fn default_runs(&self, thorough: bool) -> u64 {
        if thorough { 60_000 } else { 3_000 }
    }
    fn child(&self, spec: &Spec) {
        let mut wrng = Rng::derive(spec.seed, spec.index, 1);
        let w = if spec.overrides.is_null() { gen_workload(&mut wrng, spec.tier_thorough) } else { spec.overrides.clone() };
        report::set_workload(w.clone());
        if spec.gen_only {
            return;
        }
        let mut faults = vmh::default_faults(spec.seed, spec.index);
        faults.gc_num = w["gc"][0].as_u64().unwrap_or(0);
        faults.gc_den = w["gc"][1].as_u64().unwrap_or(1);
        faults.heap_chunk = w["heap_chunk"].as_u64().unwrap_or(64) as usize;
        // one root class busy-waits for another thread: no strict priorities
        vmh::FAIR_ONLY.store(true, std::sync::atomic::Ordering::SeqCst);
        let mut engine = vmh::start(
            spec,
            vmh::VmOptions {
                property: "C04",
                jit: w["jit"].as_bool().unwrap_or(true),
                faults,
                yield_at_dispatch: false,
                max_steps: 200_000_000,
                expected_steps: 5_000,
                on_stop: report::stop_is_harness_error,
                panic_class: |m| vmh::panic_signature("C04", m),
            },
        );
        // the prelude is compiled with collections off, like any earlier evaluation
        let saved = vmh::with_faults(|f| std::mem::replace(&mut f.gc_num, 0)).unwrap_or(0);
        if let Err(e) = vmh::eval(&mut engine, PRELUDE) {
            report::harness_error(format!("prelude failed: {}", e));
        }
        vmh::with_faults(|f| f.gc_num = saved);
        let items = w["items"].as_array().cloned().unwrap_or_default();
        let tier = if w["jit"].as_bool().unwrap_or(true) { "jit" } else { "nojit" };
        // host-rooted values: created by the host, the only reference is a rooted value
        let mut rooted: Vec<(String, steel::RootedSteelVal, String)> = Vec::new();
        for (i, it) in items.iter().enumerate() {
            let defs = it["defs"].as_str().unwrap_or("");
            if !defs.is_empty() {
                if let Err(e) = vmh::eval(&mut engine, defs) {
                    report::violation("C04/error-defining", format!("{} failed: {}", defs, e));
                }
            }
            if it["kind"] == "host-rooted" {
                let a = 9000 + i as i64;
                match engine.run(format!("(box {})", a)) {
                    Ok(mut vs) => {
                        let v: SteelVal = vs.pop().unwrap();
                        let r = v.as_rooted();
                        drop(v);
                        rooted.push((format!("hr{}", i), r, format!("({})", a)));
                    }
                    Err(e) => report::harness_error(format!("host box failed: {}", e)),
                }
            }
        }
        let group = w["group"].as_bool().unwrap_or(false);
        let mut late: Vec<(String, String, String)> = Vec::new();
        if group {
            let mut src = String::from("(list");
            let mut exp = String::from("(");
            let mut first = true;
            for it in items.iter() {
                if it["kind"] == "host-rooted" {
                    continue;
                }
                if isolated(it["kind"].as_str().unwrap_or(""), tier == "jit") {
                    late.push((
                        it["kind"].as_str().unwrap_or("").to_string(),
                        it["expr"].as_str().unwrap_or("").to_string(),
                        it["expect"].as_str().unwrap_or("").to_string(),
                    ));
                    continue;
                }
                src.push(' ');
                src.push_str(it["expr"].as_str().unwrap_or("'()"));
                if !first {
                    exp.push(' ');
                }
                first = false;
                exp.push_str(it["expect"].as_str().unwrap_or("()"));
            }
            src.push(')');
            exp.push(')');
            vmh::set_context(&format!("{}/grouped", tier));
            let got = vmh::eval(&mut engine, &src);
            check("grouped", &src, &exp, got);
        } else {
            for it in items.iter() {
                if it["kind"] == "host-rooted" {
                    continue;
                }
                let (kind, expr, expect) = (
                    it["kind"].as_str().unwrap_or("").to_string(),
                    it["expr"].as_str().unwrap_or("").to_string(),
                    it["expect"].as_str().unwrap_or("").to_string(),
                );
                if it["late"].as_bool().unwrap_or(false) || isolated(&kind, tier == "jit") {
                    late.push((kind, expr, expect));
                    continue;
                }
                vmh::set_context(&format!("{}/{}", tier, kind));
                let got = vmh::eval(&mut engine, &expr);
                check(&kind, &expr, &expect, got);
            }
        }
        // host-rooted values must have survived everything above
        for (name, r, expect) in rooted.iter() {
            vmh::set_context(&format!("{}/host-rooted", tier));
            let _ = vmh::eval(&mut engine, "(churn 3)");
            engine.register_value(name, r.value().clone());
            let expr = format!("(list (unbox {}))", name);
            let got = vmh::eval(&mut engine, &expr);
            check("host-rooted", &expr, expect, got);
        }
        late.sort_by_key(|(k, _, _)| isolated(k, tier == "jit"));
        for (kind, expr, expect) in late {
            vmh::set_context(&format!("{}/{}", tier, kind));
            // waiting for another thread to finish needs instruction-level scheduling
            vmh::set_yield_at_dispatch(kind == "thread-result");
            let got = vmh::eval(&mut engine, &expr);
            vmh::set_yield_at_dispatch(false);
            check(&kind, &expr, &expect, got);
        }
        vmh::set_context("");
        drop(rooted);
        // accounting: free-slot counter equals the number of clear mark bits
        let hs = engine.verif_heap_stats();
        let fulls = vmh::FULL_COLLECTIONS.load(std::sync::atomic::Ordering::Relaxed);
        let forced = vmh::with_faults(|f| f.gc_forced).unwrap_or(0);
        if fulls > 0 {
            report::probe("run.with-full-collection");
        }
        report::set_extra("heap", json!(format!("{:?}", hs)));
        report::set_extra("full_collections", json!(fulls));
        report::set_nontrivial(fulls > 0 || forced > 0);
        if hs.value_free_accounted != hs.value_free_actual || hs.vector_free_accounted != hs.vector_free_actual {
            report::violation(
                "C04/free-slot-accounting",
                format!("free-slot counters disagree with the mark bits after the run: {:?}", hs),
            );
        }
        let _ = 1i64.into_steelval();
    }

    fn shrink(&self, w: &Value) -> Vec<Value> {
        let mut out = Vec::new();
        let n = w["items"].as_array().map(|a| a.len()).unwrap_or(0);
        for i in (0..n).rev() {
            let mut c = w.clone();
            c["items"].as_array_mut().unwrap().remove(i);
            out.push(c);
        }
        if w["group"].as_bool().unwrap_or(false) {
            let mut c = w.clone();
            c["group"] = json!(false);
            out.push(c);
        }
        out
    }

    fn rule(&self) -> String {
        "each evaluation = one forked run of a generated program of 2-7 items drawn from 34 root classes (pending argument, let local, closure capture, assigned captured variable, open/re-entered/escaped continuation, handler capture, global, thread-local slot, nested containers, transducer state, value being allocated, struct field, vector-set!, box chain, map callback, dynamic-wind, apply arguments, deep frames, make-vector fill, closure in container, host-rooted value, frame-closure temporaries, continuation-captured frames, unjoined thread result, value in flight in a channel, forced promise, parameterize binding, rest arguments, stream cells, hash-map value, hash-set member, immutable struct field) with allocator churn between store and read-back, under a per-run forced-full-collection rate in {0,1/64,1/8,1/2,1} and JIT on/off; non-trivial = at least one full collection ran; distinct = distinct (workload, event trace)".into()
    }
    fn assumptions(&self) -> Vec<String> {
        vec![
            "collections are forced at allocation points only (the places the runtime itself may collect)".into(),
            "single script thread; the marker pool's own interleavings are not scheduled".into(),
            "values returned to the host are not roots unless rooted explicitly; programs return immutable data only".into(),
        ]
    }
    fn components(&self) -> Value {
        json!({"real": ["compiler", "VM", "JIT (per run on/off)", "mark-and-sweep collector", "marker pool", "steel-rc"],
               "simulated": ["collection timing (forced at PRNG-chosen allocations)", "host application (rooting, register_value)"]})
    }
}
