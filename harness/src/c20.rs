//! C20 — lent host references (second sentence only).
//!
//! A host object is lent to a script for the duration of a call; the script
//! stashes the reference (global, closure, box, list, hash map, mutable
//! vector, struct field, continuation, channel, a spawned thread that keeps
//! using it). Faults inside the lending call (an interrupt at a chosen dispatch
//! step, an error raised by the script), and the end of the lending call
//! scheduled against a method call running on another thread. Oracle: the host
//! object is only ever touched inside the lending window; every use that starts
//! after the lending call returned yields an error; the next lend works.

use crate::report;
use crate::rng::Rng;
use crate::runner::{Scenario, Spec};
use crate::sched;
use crate::sites;
use crate::vmh;
use serde_json::{json, Value};
use std::sync::atomic::{AtomicBool, AtomicU64, Ordering};
use steel::gc::unsafe_erased_pointers::CustomReference;
use steel::steel_vm::register_fn::{MarkerWrapper7, RegisterFn};

pub struct C20;

pub struct Probe {
    value: isize,
    canary: u64,
    /// which lending window this object belongs to (0 = the round's object,
    /// 1 = the object of a lending call nested inside the first one)
    id: usize,
    gauge: Gauge,
}

/// A part of the probe that a method hands out as a reference of its own.
pub struct Gauge {
    level: isize,
    owner: usize,
}

const CANARY: u64 = 0xC0FF_EE00_C0FF_EE00;

static LENT: [AtomicBool; 2] = [AtomicBool::new(false), AtomicBool::new(false)];
static USES_IN_WINDOW: AtomicU64 = AtomicU64::new(0);

/// a thread started inside the current lending call has not been joined yet
static WORKER_ALIVE: AtomicBool = AtomicBool::new(false);

/// the script holds a reference to a part of the lent object (`&mut Gauge`
/// handed out by a method): until it lets go, no method of the object itself
/// may run (two `&mut` to overlapping host memory)
static PART_HELD: AtomicBool = AtomicBool::new(false);

fn part_held(v: bool) {
    PART_HELD.store(v, Ordering::SeqCst);
}

fn outside_window(what: &str, when: &str) -> ! {
    // Who enters a method outside the window, and in which history, names the
    // finding: a worker whose view of the object was taken inside the window;
    // a new use by the lending thread that is admitted because such a worker
    // still holds its view; or a new use with nobody else around (then the
    // invalidation at the end of the lending call itself does not work).
    let when = if when == "at-entry" {
        let me = sched::current().unwrap_or(0);
        if me != 0 {
            "at-entry/worker-whose-view-was-taken-inside-the-window".to_string()
        } else if WORKER_ALIVE.load(Ordering::SeqCst) {
            "at-entry/new-use-admitted-while-a-worker-still-holds-a-view".to_string()
        } else {
            "at-entry/new-use-admitted".to_string()
        }
    } else {
        when.to_string()
    };
    report::violation(
        &format!("C20/host-object-touched-outside-lending-window/{}", when),
        format!("the method {} of the lent object ran ({}) while the object was not lent", what, when),
    )
}

impl Probe {
    fn check(&self, what: &str, when: &str) {
        if !LENT[self.id].load(Ordering::SeqCst) {
            outside_window(what, when);
        }
        if self.canary != CANARY {
            report::violation("C20/host-object-corrupt", format!("{}: canary {:#x}", what, self.canary));
        }
        if when == "at-entry" && PART_HELD.load(Ordering::SeqCst) {
            report::violation(
                "C20/object-used-while-a-reference-to-its-part-is-held",
                format!("the method {} of the lent object ran while the script held a reference to a part of it (a second mutable reference into the same host object)", what),
            );
        }
    }
    pub fn get(&mut self) -> isize {
        self.check("probe-get", "at-entry");
        USES_IN_WINDOW.fetch_add(1, Ordering::SeqCst);
        // the lending call may end while another thread is in here
        sched::yield_point_ex(sites::H_METHOD, 0, true);
        self.check("probe-get", "at-exit");
        self.value
    }
    pub fn inc(&mut self) -> isize {
        self.check("probe-inc", "at-entry");
        USES_IN_WINDOW.fetch_add(1, Ordering::SeqCst);
        sched::yield_point_ex(sites::H_METHOD, 0, true);
        self.value += 1;
        sched::yield_point_ex(sites::H_METHOD, 0, true);
        self.check("probe-inc", "at-exit");
        self.value
    }
}

impl Probe {
    fn new(value: isize, id: usize) -> Probe {
        Probe { value, canary: CANARY, id, gauge: Gauge { level: value + 7, owner: id } }
    }
    pub fn gauge(&mut self) -> &mut Gauge {
        self.check("probe-gauge", "at-entry");
        USES_IN_WINDOW.fetch_add(1, Ordering::SeqCst);
        &mut self.gauge
    }
}

impl Gauge {
    pub fn read(&mut self) -> isize {
        if !LENT[self.owner].load(Ordering::SeqCst) {
            outside_window("gauge-read", "at-entry");
        }
        USES_IN_WINDOW.fetch_add(1, Ordering::SeqCst);
        self.level
    }
}

impl CustomReference for Probe {}
steel::custom_reference!(Probe);
impl CustomReference for Gauge {}
steel::custom_reference!(Gauge);

const PRELUDE: &str = r#"
(define *ext* #f)
(define *inner* #f)
(define stash (box #f))
(define stash2 (box #f))
(define stash-k (box #f))
(struct holder (ref) #:mutable)
(define chs (channels/new))
(define tx (channels-sender chs))
(define rx (channels-receiver chs))
(define (use-later x) (probe-get x))
(define worker (box #f))
"#;

/// how the script keeps the reference: (name, code run while lent, code run
/// afterwards that uses the stashed reference)
const STASHES: &[(&str, &str, &str)] = &[
    ("global-box", "(set-box! stash *ext*)", "(probe-get (unbox stash))"),
    ("closure", "(set-box! stash (let ((r *ext*)) (lambda () (probe-get r))))", "((unbox stash))"),
    ("list", "(set-box! stash (list 1 *ext* 3))", "(probe-get (cadr (unbox stash)))"),
    ("hash", "(set-box! stash (hash 'k *ext*))", "(probe-get (hash-ref (unbox stash) 'k))"),
    ("mutable-vector", "(set-box! stash (mutable-vector 0 *ext*))", "(probe-inc (mut-vector-ref (unbox stash) 1))"),
    ("struct-field", "(set-box! stash (holder *ext*))", "(probe-get (holder-ref (unbox stash)))"),
    ("continuation", "(let ((r *ext*)) (call/cc (lambda (k) (set-box! stash-k k))) (set-box! stash r))", "(probe-get (unbox stash))"),
    ("channel", "(channel/send tx *ext*)", "(probe-get (channel/try-recv rx))"),
    ("nested-closure-in-list", "(set-box! stash (list (let ((r *ext*)) (lambda () (lambda () (probe-inc r))))))", "(((car (unbox stash))))"),
    ("define-global", "(define kept *ext*)", "(probe-get kept)"),
    ("sub-reference", "(set-box! stash (probe-gauge *ext*))", "(gauge-read (unbox stash))"),
    ("object-and-sub-reference", "(set-box! stash (list *ext* (probe-gauge *ext*)))", "(list (gauge-read (cadr (unbox stash))))"),
];

fn gen_workload(rng: &mut Rng) -> Value {
    let jit = rng.chance(1, 2);
    let rounds = rng.range(1, 4);
    let mut rs = Vec::new();
    for _ in 0..rounds {
        let stash = rng.below(STASHES.len() as u64);
        let fault = *rng.pick(&["none", "none", "interrupt", "script-error", "thread", "host-panic", "nested"]);
        let k = rng.range(0, 120);
        let uses = rng.range(1, 4);
        // how often the script takes (and drops) a reference to a part of the object
        let subrefs = if rng.chance(1, 2) { rng.range(1, 3) } else { 0 };
        rs.push(json!({"stash": stash, "fault": fault, "k": k, "uses": uses, "api": rng.below(2), "subrefs": subrefs}));
    }
    json!({"jit": jit, "rounds": rs, "gc": [*rng.pick(&[0u64, 1]), 8]})
}

fn on_stop(s: sched::Stop) -> ! {
    match s {
        sched::Stop::Deadlock(d) => report::violation("C16/deadlock/in-lending-scenario", d),
        sched::Stop::Budget(d) => report::harness_error(format!("step budget exceeded: {}", d)),
        sched::Stop::ReplayDiverged(d) => report::stop_is_harness_error(sched::Stop::ReplayDiverged(d)),
    }
}

impl Scenario for C20 {
    fn name(&self) -> &'static str {
        "c20-lend"
    }
    fn property(&self) -> &'static str {
        "C20"
    }
    fn setup(&self) {
        vmh::build_prototypes(true, true);
    }
    fn default_runs(&self, thorough: bool) -> u64 {
        if thorough { 200_000 } else { 3_000 }
    }
    fn timeout_ms(&self) -> u64 {
        30_000
    }

    fn child(&self, spec: &Spec) {
        let mut wrng = Rng::derive(spec.seed, spec.index, 1);
        let w = if spec.overrides.is_null() { gen_workload(&mut wrng) } else { spec.overrides.clone() };
        report::set_workload(w.clone());
        if spec.gen_only {
            return;
        }
        let jit = w["jit"].as_bool().unwrap_or(true);
        let tier = if jit { "jit" } else { "nojit" };
        let mut faults = vmh::default_faults(spec.seed, spec.index);
        faults.gc_num = w["gc"][0].as_u64().unwrap_or(0);
        faults.gc_den = w["gc"][1].as_u64().unwrap_or(8);
        faults.heap_chunk = 256;
        let mut engine = vmh::start(
            spec,
            vmh::VmOptions {
                property: "C20",
                jit,
                faults,
                yield_at_dispatch: false,
                max_steps: 5_000_000,
                expected_steps: 5_000,
                on_stop,
                panic_class: |m| vmh::panic_signature("C20", m),
            },
        );
        vmh::set_stale_is_violation(false);
        engine.register_fn("probe-get", Probe::get);
        engine.register_fn("probe-inc", Probe::inc);
        engine.register_fn("gauge-read", Gauge::read);
        engine.register_fn("part-held!", part_held);
        // a method that hands out a reference to a part of the lent object
        RegisterFn::<_, MarkerWrapper7<(Probe, Gauge, Gauge, Probe)>, Gauge>::register_fn(&mut engine, "probe-gauge", Probe::gauge);
        vmh::set_context("prelude");
        if let Err(e) = vmh::eval(&mut engine, PRELUDE) {
            report::harness_error(format!("prelude failed: {}", e));
        }
        let mut nontrivial = false;
        let rounds = w["rounds"].as_array().cloned().unwrap_or_default();
        for (ri, r) in rounds.iter().enumerate() {
            let (sname, stash_code, later) = STASHES[r["stash"].as_u64().unwrap_or(0) as usize % STASHES.len()];
            let fault = r["fault"].as_str().unwrap_or("none");
            let uses = r["uses"].as_u64().unwrap_or(1);
            vmh::set_context(&format!("{}/{}/{}", tier, sname, fault));
            let mut probe = Probe::new(100 * (ri as isize + 1), 0);
            let mut body = String::new();
            for _ in 0..uses {
                body.push_str("(probe-inc *ext*)\n");
            }
            for _ in 0..r["subrefs"].as_u64().unwrap_or(0) {
                body.push_str("(gauge-read (probe-gauge *ext*))\n");
            }
            body.push_str(stash_code);
            body.push('\n');
            match fault {
                "script-error" => body.push_str("(car 5)\n"),
                "thread" => {
                    // a thread that keeps using the reference while the lending call ends
                    body.push_str("(set-box! worker (let ((r *ext*)) (spawn-native-thread (lambda () (with-handler (lambda (e) 'stopped) (let lp ((i 0)) (when (< i 6) (probe-get r) (lp (+ i 1)))) 'finished)))))\n");
                }
                _ => {}
            }
            // a stashed reference to a part of the object keeps the object borrowed
            let holds_part = sname.contains("sub-reference");
            if !holds_part {
                body.push_str("(probe-get *ext*)\n");
            } else if fault != "script-error" {
                // while the part reference is held, a use of the object itself must be refused
                body.push_str("(part-held! #t)\n(with-handler (lambda (e) 'refused) (probe-get *ext*))\n(with-handler (lambda (e) 'refused) (probe-gauge *ext*))\n(part-held! #f)\n");
            }
            let before = USES_IN_WINDOW.load(Ordering::SeqCst);
            vmh::MAIN_DISPATCHES.store(0, Ordering::SeqCst);
            if fault == "interrupt" {
                vmh::set_interrupt_at(r["k"].as_u64());
            }
            if fault == "thread" {
                vmh::set_yield_at_dispatch(true);
            }
            // ---- the lending window
            WORKER_ALIVE.store(fault == "thread", Ordering::SeqCst);
            LENT[0].store(true, Ordering::SeqCst);
            PART_HELD.store(false, Ordering::SeqCst);
            let res = if fault == "host-panic" {
                // the host's own code inside the lending call panics after the
                // script ran; the embedder catches the panic and carries on
                let body2 = body.clone();
                let caught = std::panic::catch_unwind(std::panic::AssertUnwindSafe(|| {
                    engine.run_thunk_with_reference::<Probe, Probe>(&mut probe, move |engine, value| {
                        engine.update_value("*ext*", value);
                        let _ = engine.compile_and_run_raw_program(body2.clone());
                        report::fault("host-panic-inside-lending-call");
                        // not `panic!`: the harness's panic hook treats a panic as a finding
                        std::panic::resume_unwind(Box::new("injected host panic"))
                    })
                }));
                match caught {
                    Ok(x) => x,
                    Err(_) => Err(steel::rerrs::SteelErr::new(steel::rerrs::ErrorKind::Generic, "the host panicked inside the lending call".to_string())),
                }
            } else if fault == "nested" {
                // a second object is lent from inside the first lending call
                let body2 = body.clone();
                let mut inner = Probe::new(-5, 1);
                let tier2 = tier;
                engine.run_thunk_with_reference::<Probe, Probe>(&mut probe, |engine, value| {
                    engine.update_value("*ext*", value);
                    let r0 = engine.compile_and_run_raw_program(body2.clone());
                    LENT[1].store(true, Ordering::SeqCst);
                    let r1 = engine.run_with_reference::<Probe, Probe>(
                        &mut inner,
                        "*inner*",
                        "(probe-inc *inner*)\n(set-box! stash2 *inner*)\n(probe-get *inner*)",
                    );
                    LENT[1].store(false, Ordering::SeqCst);
                    inner.canary = 0xDEAD;
                    report::fault("nested-lending-call");
                    if let Err(e) = &r1 {
                        report::violation(
                            &format!("C20/{}/lending-call-failed/nested-inner", tier2),
                            format!("the nested lending call failed: {}", e),
                        );
                    }
                    // still inside the outer window: the inner reference is dead, the outer one is not
                    if let Ok(v) = engine.compile_and_run_raw_program("(probe-get (unbox stash2))") {
                        report::violation(
                            &format!("C20/{}/use-after-lending-returned-a-value/nested-inner", tier2),
                            format!("(probe-get (unbox stash2)) evaluated to {:?} after the nested lending call had returned", v.last()),
                        );
                    }
                    let outer_alive = if holds_part { Ok(Vec::new()) } else { engine.compile_and_run_raw_program("(probe-get *ext*)") };
                    if let Err(e) = outer_alive {
                        report::violation(
                            &format!("C20/{}/lent-reference-dead-inside-its-window/nested-outer", tier2),
                            format!("the outer object is still lent, but (probe-get *ext*) after the nested lending call failed: {}", e),
                        );
                    }
                    engine.update_value("*ext*", steel::SteelVal::Void);
                    r0.map(|x| x.into_iter().last().unwrap_or(steel::SteelVal::Void))
                })
            } else if r["api"].as_u64().unwrap_or(0) == 0 {
                engine.run_with_reference::<Probe, Probe>(&mut probe, "*ext*", &body)
            } else {
                let body2 = body.clone();
                engine.run_thunk_with_reference::<Probe, Probe>(&mut probe, move |engine, value| {
                    engine.update_value("*ext*", value);
                    let r = engine.compile_and_run_raw_program(body2.clone());
                    engine.update_value("*ext*", steel::SteelVal::Void);
                    r.map(|x| x.into_iter().last().unwrap_or(steel::SteelVal::Void))
                })
            };
            sched::yield_point_ex(sites::H_LEND_END, 0, true);
            LENT[0].store(false, Ordering::SeqCst);
            // ---- the host may do anything with the object now
            probe.canary = 0xDEAD;
            vmh::set_interrupt_at(None);
            engine.get_thread_state_controller().resume();
            let used = USES_IN_WINDOW.load(Ordering::SeqCst) - before;
            if used > 0 {
                nontrivial = true;
            }
            match (fault, &res) {
                ("none", Err(e)) | ("thread", Err(e)) | ("nested", Err(e)) => report::violation(
                    &format!("C20/{}/lending-call-failed", tier),
                    format!("round {} ({}): the lending call failed: {}", ri, sname, e),
                ),
                ("script-error", Ok(v)) => report::violation(
                    &format!("C20/{}/failing-script-succeeded", tier),
                    format!("round {}: {:?}", ri, v),
                ),
                _ => {}
            }
            // uses after the lending call ended: each must be an error
            vmh::set_context(&format!("{}/{}/{}/after", tier, sname, fault));
            let later_res = vmh::eval(&mut engine, later);
            match &later_res {
                Ok(v) => {
                    // the stash may be empty when the fault hit before the stash was made
                    let s = v.last().cloned().unwrap_or_default();
                    report::violation(
                        &format!("C20/{}/use-after-lending-returned-a-value/{}", tier, sname),
                        format!("round {} ({} / {}): {} evaluated to {} after the lending call had returned", ri, sname, fault, later, s),
                    );
                }
                Err(_) => report::probe("use-after-lend.error"),
            }
            if fault == "thread" {
                // let the worker finish (it must stop by an error, or have finished inside the window)
                let jr = vmh::eval(&mut engine, "(thread-join! (unbox worker))");
                WORKER_ALIVE.store(false, Ordering::SeqCst);
                vmh::set_yield_at_dispatch(false);
                match jr {
                    Ok(_) => {}
                    Err(e) => {
                        if !e.contains("already been joined") {
                            report::probe("worker.join-error");
                        }
                    }
                }
            }
            // drain what the round left behind
            let _ = vmh::eval(&mut engine, "(set-box! stash #f)\n(set-box! stash2 #f)");
            let st = engine.verif_stack_state();
            if st.stack != 0 || st.frames != 0 {
                report::violation(&format!("C20/{}/stack-residue", tier), format!("round {}: {:?}", ri, st));
            }
        }
        report::set_nontrivial(nontrivial);
    }

    fn shrink(&self, w: &Value) -> Vec<Value> {
        let mut out = Vec::new();
        let n = w["rounds"].as_array().map(|a| a.len()).unwrap_or(0);
        if n > 1 {
            for i in (0..n).rev() {
                let mut c = w.clone();
                c["rounds"].as_array_mut().unwrap().remove(i);
                out.push(c);
            }
        }
        out
    }

    fn rule(&self) -> String {
        format!("each evaluation = one forked run of 1-4 lending rounds on one engine: a host object is lent through run_with_reference or run_thunk_with_reference; the script uses it 1-4 times, stashes the reference in one of {} places (box held by a global, closure, list, hash map, mutable vector, struct field, a let variable captured by a continuation, channel, nested closures, a new global definition, a reference to a part of the object obtained from a method), takes and drops 0-3 such part references, optionally fails (script error, an interrupt at a seeded dispatch step of the lending call, or a panic of the host's own code inside the lending call that the embedder catches), lends a second object from inside the first lending call (whose stashed reference must be dead, and the outer one alive, as soon as the inner call has returned) or starts a thread that keeps calling methods of the reference while the lending call returns (the scheduler places the end of the call against the method's entry/exit); afterwards the stashed reference is used; oracle: no method body runs outside the lending window (checked at entry and exit, the object is scribbled after the window), every use after the window is an error, stacks empty, the next round's lend works; forced collections at rate {{0,1/8}}, JIT on/off; non-trivial = the object was used inside the window", STASHES.len())
    }
    fn assumptions(&self) -> Vec<String> {
        vec![
            "value conversions and generated arity/type checks of registered functions (first sentence of C20) are pure functions of their input and are not decided here".into(),
            "the host keeps the object alive (on the harness stack) after the window and only scribbles a canary, so a late access is observed instead of being undefined behaviour".into(),
        ]
    }
    fn components(&self) -> Value {
        json!({"real": ["OpaqueReferenceNursery / LifetimeGuard / weak reference upgrade in the accessor", "registered method dispatch", "VM", "threads"],
               "simulated": ["host application (lending calls, object lifetime)", "scheduler (end of the lending call against method calls on another thread)", "interrupt arrival", "collection timing"]})
    }
}
