//! Token scheduler over real OS threads.
//!
//! Every simulated thread is a real thread; exactly one holds the token and
//! runs, all others sleep on their own condvar. At every hook the running
//! thread draws the next decision from the PRNG (or from a replay file) and
//! hands the token over. Blocking operations are turned into "wait until the
//! operation would not block" polls that only the token holder evaluates, so a
//! state in which every live thread's condition is false, and stays false over
//! `CONFIRM_ROUNDS` complete rounds of re-polling without any progress event,
//! is a deadlock.

use crate::rng::{Fp, Rng};
use std::cell::Cell;
use std::collections::VecDeque;
use std::sync::{Condvar, Mutex, MutexGuard};

pub const MAX_THREADS: usize = 512;
const CONFIRM_ROUNDS: u32 = 8;
const TAIL: usize = 96;

thread_local! {
    static TID: Cell<usize> = const { Cell::new(usize::MAX) };
}

#[derive(Clone, Copy, PartialEq, Eq, Debug)]
pub enum St {
    Unborn,
    Runnable,
    Blocked,
    Finished,
}

#[derive(Clone, Debug)]
pub enum Kind {
    /// switch with probability num/den at ordinary sites, hot_num/den at hot sites
    Random,
    /// PCT: strict priorities, `change_at` steps lower the running thread
    Pct,
    /// round robin with a quantum in steps
    RoundRobin,
    /// mostly sequential, but the thread that reaches `stall_site` for the
    /// `stall_nth` time is set aside for `stall_len` steps (or until nobody else
    /// can run): everybody else works inside that one window
    Stall,
}

#[derive(Clone, Debug)]
pub struct Strategy {
    pub kind: Kind,
    pub num: u32,
    pub den: u32,
    pub hot_num: u32,
    pub hot_den: u32,
    pub quantum: u32,
    pub prios: Vec<u32>,
    pub change_at: Vec<u64>,
    pub stall_site: u32,
    pub stall_nth: u32,
    pub stall_len: u64,
    // state of the stall strategy
    pub stall_hits: u32,
    pub stall_thread: usize,
    pub stall_until: u64,
}

impl Strategy {
    pub fn describe(&self) -> String {
        match self.kind {
            Kind::Random => format!(
                "random(p={}/{},hot={}/{})",
                self.num, self.den, self.hot_num, self.hot_den
            ),
            Kind::Pct => format!("pct(d={})", self.change_at.len()),
            Kind::RoundRobin => format!("rr(q={})", self.quantum),
            Kind::Stall => format!(
                "stall(site={},nth={},len={},p={}/{})",
                self.stall_site, self.stall_nth, self.stall_len, self.num, self.den
            ),
        }
    }

    /// As `swarm`, but 3 runs in 10 use the stall strategy at one of `sites`.
    pub fn swarm_with_stall(rng: &mut Rng, expected_steps: u64, sites: &[u32]) -> Strategy {
        let mut s = Strategy::swarm(rng, expected_steps);
        if !sites.is_empty() && rng.chance(3, 10) {
            s.kind = Kind::Stall;
            s.num = 1;
            s.den = *rng.pick(&[2u32, 8, 32]);
            s.stall_site = *rng.pick(sites);
            s.stall_nth = *rng.pick(&[1u32, 1, 1, 2, 2, 3, 5, 9]);
            s.stall_len = *rng.pick(&[6u64, 20, 60, 400, 1_000_000]);
        }
        s
    }

    /// Swarm choice of a strategy from the run's PRNG. `expected_steps` scales
    /// the PCT change points.
    pub fn swarm(rng: &mut Rng, expected_steps: u64) -> Strategy {
        let mut s = Strategy {
            kind: Kind::Random,
            num: 1,
            den: 1,
            hot_num: 1,
            hot_den: 1,
            quantum: 1,
            prios: Vec::new(),
            change_at: Vec::new(),
            stall_site: 0,
            stall_nth: 0,
            stall_len: 0,
            stall_hits: 0,
            stall_thread: usize::MAX,
            stall_until: 0,
        };
        match rng.below(10) {
            0..=4 => {
                s.kind = Kind::Random;
                s.den = *rng.pick(&[1u32, 2, 4, 16, 64]);
                s.hot_num = 1;
                s.hot_den = *rng.pick(&[1u32, 2, 2, 4]);
                if s.hot_den > s.den {
                    s.hot_den = s.den;
                }
            }
            5..=7 => {
                s.kind = Kind::Pct;
                let mut p: Vec<u32> = (0..MAX_THREADS as u32).map(|i| i + 100).collect();
                rng.shuffle(&mut p);
                s.prios = p;
                let d = rng.range(1, 4);
                for _ in 0..d {
                    s.change_at.push(rng.below(expected_steps.max(2)));
                }
                s.change_at.sort();
            }
            _ => {
                s.kind = Kind::RoundRobin;
                s.quantum = rng.range(1, 40) as u32;
            }
        }
        s
    }
}

#[derive(Clone, Debug)]
pub struct Event {
    pub step: u64,
    pub tid: u8,
    pub site: u32,
    pub what: u8, // 0 yield, 1 blocked poll, 2 unblocked, 3 spin, 4 note
    pub arg: u64,
}

pub struct Inner {
    pub active: bool,
    pub st: [St; MAX_THREADS],
    pub stalled: [bool; MAX_THREADS],
    pub blocked_site: [u32; MAX_THREADS],
    pub permits: [bool; MAX_THREADS],
    pub os_ids: Vec<Option<std::thread::ThreadId>>,
    pub nthreads: usize,
    pub current: usize,
    pub steps: u64,
    pub polls: u64,
    pub switches: u64,
    pub max_steps: u64,
    rng: Rng,
    pub strategy: Strategy,
    hot: fn(u32) -> bool,
    pub decisions: Vec<u8>,
    pub replay: Option<Vec<u8>>,
    replay_pos: usize,
    pub replay_strict: bool,
    pub diverged: bool,
    pub trace_fp: Fp,
    pub sched_fp: Fp,
    pub tail: VecDeque<Event>,
    pub full_trace: Option<Vec<Event>>,
    confirm_rounds: u32,
    mailbox: Option<usize>,
    quantum_left: u32,
    pct_next: usize,
    low_prio: u32,
    pub max_live: usize,
    pub site_hits: Vec<(u32, u64)>,
    /// simulated clock = steps + clock_offset (ticks); the offset grows when
    /// every live thread is blocked and one of them waits for a deadline
    pub clock_offset: u64,
    pub deadline: [Option<u64>; MAX_THREADS],
    pub clock_jumps: u64,
    pub timeouts_fired: u64,
}

fn cold(_: u32) -> bool {
    false
}

impl Inner {
    fn new() -> Inner {
        Inner {
            active: false,
            st: [St::Unborn; MAX_THREADS],
            stalled: [false; MAX_THREADS],
            blocked_site: [0; MAX_THREADS],
            permits: [false; MAX_THREADS],
            os_ids: vec![None; MAX_THREADS],
            nthreads: 0,
            current: 0,
            steps: 0,
            polls: 0,
            switches: 0,
            max_steps: u64::MAX,
            rng: Rng::new(0),
            strategy: Strategy {
                kind: Kind::Random,
                num: 1,
                den: 2,
                hot_num: 1,
                hot_den: 2,
                quantum: 1,
                prios: vec![],
                change_at: vec![],
                stall_site: 0,
                stall_nth: 0,
                stall_len: 0,
                stall_hits: 0,
                stall_thread: usize::MAX,
                stall_until: 0,
            },
            hot: cold,
            decisions: Vec::new(),
            replay: None,
            replay_pos: 0,
            replay_strict: false,
            diverged: false,
            trace_fp: Fp::new(),
            sched_fp: Fp::new(),
            tail: VecDeque::new(),
            full_trace: None,
            confirm_rounds: 0,
            mailbox: None,
            quantum_left: 0,
            pct_next: 0,
            low_prio: 99,
            max_live: 0,
            site_hits: Vec::new(),
            clock_offset: 0,
            deadline: [None; MAX_THREADS],
            clock_jumps: 0,
            timeouts_fired: 0,
        }
    }

    fn event(&mut self, tid: usize, site: u32, what: u8, arg: u64) {
        let e = Event {
            step: self.steps,
            tid: tid as u8,
            site,
            what,
            arg,
        };
        self.trace_fp
            .add(((tid as u64) << 40) | ((what as u64) << 32) | site as u64);
        if arg != 0 {
            self.trace_fp.add(arg);
        }
        if let Some(f) = self.full_trace.as_mut() {
            f.push(e.clone());
        }
        if self.tail.len() == TAIL {
            self.tail.pop_front();
        }
        self.tail.push_back(e);
    }

    pub fn now(&self) -> u64 {
        self.steps + self.clock_offset
    }

    fn progress(&mut self) {
        self.confirm_rounds = 0;
        for s in self.stalled.iter_mut() {
            *s = false;
        }
    }

    fn live(&self) -> usize {
        (0..self.nthreads)
            .filter(|&t| matches!(self.st[t], St::Runnable | St::Blocked))
            .count()
    }

    fn candidates(&self, me: usize, me_ok: bool) -> Vec<usize> {
        let mut v = Vec::with_capacity(self.nthreads);
        for t in 0..self.nthreads {
            if t == me {
                if me_ok {
                    v.push(t);
                }
                continue;
            }
            match self.st[t] {
                St::Runnable | St::Blocked if !self.stalled[t] => v.push(t),
                _ => {}
            }
        }
        v
    }

    /// Decide who runs next. `me_ok`: the caller can continue itself.
    fn pick(&mut self, me: usize, me_ok: bool, site: u32) -> Option<usize> {
        let cands = self.candidates(me, me_ok);
        if cands.is_empty() {
            return None;
        }
        let mut forced: Option<usize> = None;
        if let Some(list) = self.replay.as_ref() {
            if self.replay_pos < list.len() {
                let want = list[self.replay_pos] as usize;
                self.replay_pos += 1;
                if cands.contains(&want) {
                    forced = Some(want);
                } else {
                    self.diverged = true;
                }
            }
            if forced.is_none() {
                // beyond the recording (or not eligible): stay if possible
                forced = Some(if me_ok { me } else { cands[0] });
            }
        }
        let chosen = match forced {
            Some(c) => c,
            None => self.pick_fresh(me, me_ok, site, &cands),
        };
        self.decisions.push(chosen as u8);
        self.sched_fp.add(chosen as u64 + 1);
        Some(chosen)
    }

    fn pick_fresh(&mut self, me: usize, me_ok: bool, site: u32, cands: &[usize]) -> usize {
        if cands.len() == 1 {
            return cands[0];
        }
        match self.strategy.kind {
            Kind::Random => {
                let (n, d) = if (self.hot)(site) {
                    (self.strategy.hot_num, self.strategy.hot_den)
                } else {
                    (self.strategy.num, self.strategy.den)
                };
                if me_ok && !self.rng.chance(n as u64, d as u64) {
                    return me;
                }
                let others: Vec<usize> = cands.iter().copied().filter(|&t| t != me).collect();
                if others.is_empty() {
                    me
                } else {
                    *self.rng.pick(&others)
                }
            }
            Kind::Pct => {
                while self.pct_next < self.strategy.change_at.len()
                    && self.strategy.change_at[self.pct_next] <= self.steps
                {
                    self.pct_next += 1;
                    if me < self.strategy.prios.len() {
                        self.low_prio = self.low_prio.saturating_sub(1);
                        self.strategy.prios[me] = self.low_prio;
                    }
                }
                let mut best = cands[0];
                for &t in cands {
                    let pt = self.strategy.prios.get(t).copied().unwrap_or(0);
                    let pb = self.strategy.prios.get(best).copied().unwrap_or(0);
                    if pt > pb {
                        best = t;
                    }
                }
                best
            }
            Kind::Stall => {
                if me_ok && site == self.strategy.stall_site && self.strategy.stall_thread == usize::MAX {
                    self.strategy.stall_hits += 1;
                    if self.strategy.stall_hits == self.strategy.stall_nth {
                        self.strategy.stall_thread = me;
                        self.strategy.stall_until = self.steps.saturating_add(self.strategy.stall_len);
                    }
                }
                let stalled = if self.steps < self.strategy.stall_until { self.strategy.stall_thread } else { usize::MAX };
                let avail: Vec<usize> = cands.iter().copied().filter(|&t| t != stalled).collect();
                if avail.is_empty() {
                    // nobody else can run: the stalled thread goes on
                    self.strategy.stall_until = 0;
                    return cands[0];
                }
                if me_ok && me != stalled && !self.rng.chance(self.strategy.num as u64, self.strategy.den as u64) {
                    return me;
                }
                let others: Vec<usize> = avail.iter().copied().filter(|&t| t != me).collect();
                if others.is_empty() {
                    avail[0]
                } else {
                    *self.rng.pick(&others)
                }
            }
            Kind::RoundRobin => {
                if me_ok && self.quantum_left > 0 {
                    self.quantum_left -= 1;
                    return me;
                }
                self.quantum_left = self.strategy.quantum;
                // next candidate after me in cyclic order
                let mut best = cands[0];
                for &t in cands {
                    if t > me {
                        best = t;
                        break;
                    }
                }
                best
            }
        }
    }
}

static INNER: Mutex<Option<Inner>> = Mutex::new(None);
static CVS: [Condvar; MAX_THREADS] = [const { Condvar::new() }; MAX_THREADS];
static MAILBOX_CV: Condvar = Condvar::new();

/// What the scheduler calls when a run cannot continue.
#[derive(Clone, Debug)]
pub enum Stop {
    Deadlock(String),
    Budget(String),
    ReplayDiverged(String),
}

static ON_STOP: Mutex<Option<fn(Stop) -> !>> = Mutex::new(None);

fn stop(g: MutexGuard<'_, Option<Inner>>, s: Stop) -> ! {
    drop(g);
    let f = ON_STOP.lock().unwrap().expect("no stop handler");
    f(s)
}

fn lock() -> MutexGuard<'static, Option<Inner>> {
    match INNER.lock() {
        Ok(g) => g,
        Err(p) => p.into_inner(),
    }
}

pub struct Config {
    pub seed: u64,
    pub strategy: Strategy,
    pub max_steps: u64,
    pub hot: fn(u32) -> bool,
    pub replay: Option<Vec<u8>>,
    pub replay_strict: bool,
    pub full_trace: bool,
    pub on_stop: fn(Stop) -> !,
}

/// Start a simulation; the calling thread becomes simulated thread 0 and
/// holds the token.
pub fn init(cfg: Config) {
    let mut inner = Inner::new();
    inner.active = true;
    inner.rng = Rng::new(cfg.seed);
    inner.strategy = cfg.strategy;
    inner.max_steps = cfg.max_steps;
    inner.hot = cfg.hot;
    inner.replay = cfg.replay;
    inner.replay_strict = cfg.replay_strict;
    if cfg.full_trace {
        inner.full_trace = Some(Vec::new());
    }
    inner.nthreads = 1;
    inner.st[0] = St::Runnable;
    inner.os_ids[0] = Some(std::thread::current().id());
    inner.current = 0;
    inner.max_live = 1;
    *ON_STOP.lock().unwrap() = Some(cfg.on_stop);
    *lock() = Some(inner);
    TID.with(|t| t.set(0));
}

pub fn is_sim_thread() -> bool {
    TID.with(|t| t.get()) != usize::MAX
}

pub fn current() -> Option<usize> {
    let t = TID.with(|t| t.get());
    if t == usize::MAX {
        None
    } else {
        Some(t)
    }
}

pub fn with_inner<R>(f: impl FnOnce(&mut Inner) -> R) -> Option<R> {
    // try_lock: the caller may be a panic hook running on a thread that
    // already holds the lock
    for _ in 0..2000 {
        match INNER.try_lock() {
            Ok(mut g) => return g.as_mut().map(f),
            Err(std::sync::TryLockError::Poisoned(p)) => {
                let mut g = p.into_inner();
                return g.as_mut().map(f);
            }
            Err(std::sync::TryLockError::WouldBlock) => std::thread::sleep(std::time::Duration::from_micros(50)),
        }
    }
    None
}

fn wait_mailbox<'a>(
    mut g: MutexGuard<'a, Option<Inner>>,
) -> MutexGuard<'a, Option<Inner>> {
    while g.as_ref().map(|i| i.mailbox.is_some()).unwrap_or(false) {
        g = match MAILBOX_CV.wait(g) {
            Ok(g) => g,
            Err(p) => p.into_inner(),
        };
    }
    g
}

fn hand_over<'a>(
    mut g: MutexGuard<'a, Option<Inner>>,
    me: usize,
    next: usize,
) -> MutexGuard<'a, Option<Inner>> {
    if next == me {
        return g;
    }
    {
        let i = g.as_mut().unwrap();
        i.switches += 1;
        i.current = next;
    }
    CVS[next].notify_one();
    while g.as_ref().unwrap().current != me {
        g = match CVS[me].wait(g) {
            Ok(g) => g,
            Err(p) => p.into_inner(),
        };
    }
    g
}

fn check_budget(g: MutexGuard<'static, Option<Inner>>) -> MutexGuard<'static, Option<Inner>> {
    let over = {
        let i = g.as_ref().unwrap();
        i.steps > i.max_steps || i.polls > i.max_steps.saturating_mul(20)
    };
    if over {
        let d = describe_threads(g.as_ref().unwrap());
        stop(g, Stop::Budget(d));
    }
    if g.as_ref().unwrap().diverged && g.as_ref().unwrap().replay_strict {
        let d = describe_threads(g.as_ref().unwrap());
        stop(g, Stop::ReplayDiverged(d));
    }
    g
}

pub fn describe_threads(i: &Inner) -> String {
    let mut s = String::new();
    for t in 0..i.nthreads {
        if t > 0 {
            s.push(' ');
        }
        let st = match i.st[t] {
            St::Unborn => "unborn".to_string(),
            St::Runnable => {
                if i.stalled[t] {
                    format!("spinning@{}", crate::sites::name(i.blocked_site[t]))
                } else {
                    "runnable".to_string()
                }
            }
            St::Blocked => format!("blocked@{}", crate::sites::name(i.blocked_site[t])),
            St::Finished => "finished".to_string(),
        };
        s.push_str(&format!("t{}:{}", t, st));
    }
    s
}

/// An ordinary scheduling point. `progress`: passing it means the thread did
/// real work (resets deadlock detection).
pub fn yield_point_ex(site: u32, arg: u64, progress: bool) {
    let me = match current() {
        Some(t) => t,
        None => return,
    };
    let mut g = lock();
    if !g.as_ref().map(|i| i.active).unwrap_or(false) {
        return;
    }
    g = wait_mailbox(g);
    {
        let i = g.as_mut().unwrap();
        debug_assert_eq!(i.current, me, "hook called by a thread without the token");
        i.steps += 1;
        i.event(me, site, 0, arg);
        if progress {
            i.progress();
        }
    }
    g = check_budget(g);
    let next = g.as_mut().unwrap().pick(me, true, site).unwrap();
    let _g = hand_over(g, me, next);
}

pub fn yield_point(site: u32) {
    yield_point_ex(site, 0, true)
}

/// Record an event without a scheduling decision.
pub fn note(site: u32, arg: u64) {
    if let Some(me) = current() {
        let mut g = lock();
        if let Some(i) = g.as_mut() {
            if i.active {
                i.event(me, site, 4, arg);
            }
        }
    }
}

fn no_candidates(
    mut g: MutexGuard<'static, Option<Inner>>,
    me: usize,
) -> MutexGuard<'static, Option<Inner>> {
    // Every live thread has seen its condition false since the last progress
    // event. Run confirmation rounds: everybody looks again.
    let i = g.as_mut().unwrap();
    // discrete-event time: nobody can run, but somebody waits for a deadline
    let now = i.now();
    let mut earliest: Option<u64> = None;
    for t in 0..i.nthreads {
        if i.st[t] == St::Blocked {
            if let Some(d) = i.deadline[t] {
                if d > now && earliest.map(|e| d < e).unwrap_or(true) {
                    earliest = Some(d);
                }
            }
        }
    }
    if let Some(d) = earliest {
        i.clock_offset += d - now;
        i.clock_jumps += 1;
        i.event(me, crate::sites::H_CLOCK_JUMP, 4, d);
        i.progress();
        i.stalled[me] = true;
        return g;
    }
    i.confirm_rounds += 1;
    if i.confirm_rounds > CONFIRM_ROUNDS {
        let d = describe_threads(i);
        stop(g, Stop::Deadlock(d));
    }
    for s in i.stalled.iter_mut() {
        *s = false;
    }
    i.stalled[me] = true;
    g
}

/// Block until `cond()` is true. `cond` must only depend on state that a token
/// holder can change.
pub fn wait_until(site: u32, cond: &mut dyn FnMut() -> bool) {
    let me = match current() {
        Some(t) => t,
        None => return,
    };
    {
        let g = lock();
        if !g.as_ref().map(|i| i.active).unwrap_or(false) {
            return;
        }
        let _g = wait_mailbox(g);
    }
    let mut polled_false = false;
    loop {
        if cond() {
            let mut g = lock();
            let i = g.as_mut().unwrap();
            i.st[me] = St::Runnable;
            i.stalled[me] = false;
            if polled_false {
                i.event(me, site, 2, 0);
            }
            i.progress();
            return;
        }
        let mut g = lock();
        {
            let i = g.as_mut().unwrap();
            i.polls += 1;
            if !polled_false {
                i.steps += 1;
                i.event(me, site, 1, 0);
            }
            polled_false = true;
            i.st[me] = St::Blocked;
            i.stalled[me] = true;
            i.blocked_site[me] = site;
        }
        g = check_budget(g);
        let mut next = g.as_mut().unwrap().pick(me, false, site);
        if next.is_none() {
            g = no_candidates(g, me);
            next = g.as_mut().unwrap().pick(me, false, site);
        }
        match next {
            Some(n) => {
                let _g = hand_over(g, me, n);
            }
            None => {
                // I am the only live thread: poll again (confirmation rounds
                // bound this loop).
                drop(g);
            }
        }
    }
}

/// Current simulated time in ticks.
pub fn now() -> u64 {
    let g = lock();
    g.as_ref().map(|i| i.now()).unwrap_or(0)
}

/// Block until `cond()` is true or `ticks` of simulated time have passed.
/// Returns true when the condition held, false on a timeout.
pub fn timed_wait(site: u32, cond: &mut dyn FnMut() -> bool, ticks: u64) -> bool {
    let me = match current() {
        Some(t) => t,
        None => return cond(),
    };
    let deadline = {
        let mut g = lock();
        match g.as_mut() {
            Some(i) if i.active => {
                let d = i.now().saturating_add(ticks);
                i.deadline[me] = Some(d);
                d
            }
            _ => return cond(),
        }
    };
    let mut timed_out = false;
    wait_until(site, &mut || {
        if cond() {
            return true;
        }
        if now() >= deadline {
            timed_out = true;
            return true;
        }
        false
    });
    let mut g = lock();
    if let Some(i) = g.as_mut() {
        i.deadline[me] = None;
        if timed_out {
            i.timeouts_fired += 1;
            i.event(me, site, 4, 1);
        }
    }
    !timed_out
}

/// One iteration of a spin loop whose condition was just observed false.
pub fn spin(site: u32) {
    let me = match current() {
        Some(t) => t,
        None => return,
    };
    let mut g = lock();
    if !g.as_ref().map(|i| i.active).unwrap_or(false) {
        return;
    }
    g = wait_mailbox(g);
    {
        let i = g.as_mut().unwrap();
        i.polls += 1;
        if !i.stalled[me] {
            i.steps += 1;
            i.event(me, site, 3, 0);
        }
        i.stalled[me] = true;
        i.blocked_site[me] = site;
    }
    g = check_budget(g);
    let mut next = g.as_mut().unwrap().pick(me, false, site);
    if next.is_none() {
        g = no_candidates(g, me);
        next = g.as_mut().unwrap().pick(me, false, site);
    }
    if let Some(n) = next {
        let _g = hand_over(g, me, n);
    }
}

/// The calling (token-holding) thread is about to start a new OS thread.
pub fn spawn_prepare() -> Option<usize> {
    let me = current()?;
    let mut g = lock();
    if !g.as_ref().map(|i| i.active).unwrap_or(false) {
        return None;
    }
    g = wait_mailbox(g);
    let i = g.as_mut().unwrap();
    let t = i.nthreads;
    assert!(t < MAX_THREADS, "too many simulated threads");
    i.nthreads += 1;
    i.st[t] = St::Runnable;
    i.mailbox = Some(t);
    i.progress();
    i.event(me, crate::sites::H_SPAWN, 4, t as u64);
    let live = i.live();
    if live > i.max_live {
        i.max_live = live;
    }
    Some(t)
}

/// First action of a new simulated thread: claim the id prepared by the parent
/// and wait for the token.
pub fn thread_begin() {
    let mut g = lock();
    if !g.as_ref().map(|i| i.active).unwrap_or(false) {
        return;
    }
    let t = match g.as_mut().unwrap().mailbox.take() {
        Some(t) => t,
        None => return, // a thread the simulation does not know about
    };
    TID.with(|x| x.set(t));
    g.as_mut().unwrap().os_ids[t] = Some(std::thread::current().id());
    MAILBOX_CV.notify_all();
    while g.as_ref().unwrap().current != t {
        g = match CVS[t].wait(g) {
            Ok(g) => g,
            Err(p) => p.into_inner(),
        };
    }
}

/// Last action of a simulated thread: give the token away for good.
/// With `park_forever` the OS thread never returns (keeps its thread-local
/// addresses from being reused within the run).
pub fn thread_end(park_forever: bool) {
    let me = match current() {
        Some(t) => t,
        None => return,
    };
    let mut g = lock();
    if !g.as_ref().map(|i| i.active).unwrap_or(false) {
        return;
    }
    g = wait_mailbox(g);
    {
        let i = g.as_mut().unwrap();
        i.st[me] = St::Finished;
        i.steps += 1;
        i.event(me, crate::sites::H_THREAD_END, 4, 0);
        i.progress();
    }
    TID.with(|x| x.set(usize::MAX));
    let next = g.as_mut().unwrap().pick(me, false, crate::sites::H_THREAD_END);
    match next {
        Some(n) => {
            let i = g.as_mut().unwrap();
            i.switches += 1;
            i.current = n;
            CVS[n].notify_one();
        }
        None => {
            // nobody left to run: only legal if everything has finished
            let i = g.as_ref().unwrap();
            if i.live() > 0 {
                let d = describe_threads(i);
                stop(g, Stop::Deadlock(d));
            }
        }
    }
    drop(g);
    if park_forever {
        loop {
            std::thread::park();
        }
    }
}

/// True when no other simulated thread could run right now (all finished,
/// blocked or stalled).
pub fn all_others_idle() -> bool {
    let me = match current() {
        Some(t) => t,
        None => return true,
    };
    let g = lock();
    match g.as_ref() {
        Some(i) => (0..i.nthreads).all(|t| {
            t == me
                || match i.st[t] {
                    St::Finished | St::Blocked | St::Unborn => true,
                    St::Runnable => i.stalled[t],
                }
        }),
        None => true,
    }
}

pub fn is_finished(t: usize) -> bool {
    let g = lock();
    g.as_ref().map(|i| i.st[t] == St::Finished).unwrap_or(true)
}

/// Simulated `park`: wait for the permit and consume it.
pub fn park(site: u32) {
    let me = match current() {
        Some(t) => t,
        None => return,
    };
    wait_until(site, &mut || {
        let g = lock();
        g.as_ref().map(|i| i.permits[me]).unwrap_or(true)
    });
    let mut g = lock();
    if let Some(i) = g.as_mut() {
        i.permits[me] = false;
    }
}

/// Simulated `unpark` of the thread with the given OS thread id.
pub fn unpark_os(id: std::thread::ThreadId) {
    if current().is_none() {
        return;
    }
    let mut g = lock();
    if let Some(i) = g.as_mut() {
        for t in 0..i.nthreads {
            if i.os_ids[t] == Some(id) {
                i.permits[t] = true;
                i.progress();
            }
        }
    }
}

pub fn sim_id_of(id: std::thread::ThreadId) -> Option<usize> {
    let g = lock();
    let i = g.as_ref()?;
    (0..i.nthreads).find(|&t| i.os_ids[t] == Some(id))
}

/// Spawn a simulated thread from harness code.
pub fn spawn<F: FnOnce() + Send + 'static>(park_forever: bool, f: F) -> usize {
    let t = spawn_prepare().expect("spawn outside a simulation");
    std::thread::spawn(move || {
        thread_begin();
        f();
        thread_end(park_forever);
    });
    t
}

/// Join in simulated terms: wait until thread `t` has ended.
pub fn join(t: usize) {
    wait_until(crate::sites::H_JOIN, &mut || is_finished(t));
}
