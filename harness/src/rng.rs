//! One PRNG for everything: SplitMix64 seeding xoshiro256**.
//! Every choice in a run (workload, schedule, faults) is derived from
//! `(VERIF_SEED, run index, stream name)`; nothing reads a clock.

#[derive(Clone, Debug)]
pub struct Rng {
    s: [u64; 4],
}

pub fn splitmix(x: &mut u64) -> u64 {
    *x = x.wrapping_add(0x9E37_79B9_7F4A_7C15);
    let mut z = *x;
    z = (z ^ (z >> 30)).wrapping_mul(0xBF58_476D_1CE4_E5B9);
    z = (z ^ (z >> 27)).wrapping_mul(0x94D0_49BB_1331_11EB);
    z ^ (z >> 31)
}

pub fn mix(a: u64, b: u64) -> u64 {
    let mut x = a ^ b.rotate_left(32) ^ 0xD6E8_FEB8_6659_FD93;
    let r = splitmix(&mut x);
    r ^ splitmix(&mut x)
}

impl Rng {
    pub fn new(seed: u64) -> Rng {
        let mut x = seed;
        let s = [
            splitmix(&mut x),
            splitmix(&mut x),
            splitmix(&mut x),
            splitmix(&mut x),
        ];
        Rng { s }
    }

    /// Independent stream `stream` of run `run` under base seed `seed`.
    pub fn derive(seed: u64, run: u64, stream: u64) -> Rng {
        Rng::new(mix(mix(seed, run), stream))
    }

    pub fn next_u64(&mut self) -> u64 {
        let s = &mut self.s;
        let result = s[1].wrapping_mul(5).rotate_left(7).wrapping_mul(9);
        let t = s[1] << 17;
        s[2] ^= s[0];
        s[3] ^= s[1];
        s[1] ^= s[2];
        s[0] ^= s[3];
        s[2] ^= t;
        s[3] = s[3].rotate_left(45);
        result
    }

    /// Uniform in `0..n` (n > 0).
    pub fn below(&mut self, n: u64) -> u64 {
        debug_assert!(n > 0);
        // multiply-shift; bias is irrelevant here
        ((self.next_u64() as u128 * n as u128) >> 64) as u64
    }

    pub fn range(&mut self, lo: u64, hi_incl: u64) -> u64 {
        lo + self.below(hi_incl - lo + 1)
    }

    /// True with probability num/den.
    pub fn chance(&mut self, num: u64, den: u64) -> bool {
        self.below(den) < num
    }

    pub fn pick<'a, T>(&mut self, xs: &'a [T]) -> &'a T {
        &xs[self.below(xs.len() as u64) as usize]
    }

    pub fn shuffle<T>(&mut self, xs: &mut [T]) {
        for i in (1..xs.len()).rev() {
            let j = self.below(i as u64 + 1) as usize;
            xs.swap(i, j);
        }
    }
}

/// FNV-style running hash used for trace / schedule fingerprints.
#[derive(Clone, Copy, Debug)]
pub struct Fp(pub u64);

impl Fp {
    pub fn new() -> Fp {
        Fp(0xcbf2_9ce4_8422_2325)
    }
    #[inline]
    pub fn add(&mut self, x: u64) {
        self.0 = (self.0 ^ x).wrapping_mul(0x0000_0100_0000_01B3);
        self.0 ^= self.0 >> 29;
    }
}
