//! steelsim — deterministic simulation with fault injection for mattwparas/steel.
//!
//!   steelsim check <PROPERTY> [--tier quick|thorough] [--runs N] [--workers W]
//!   steelsim replay <file>
//!   steelsim one <scenario> <seed> <index>        (debug: run one and print the report)
//!   steelsim determinism <scenario> [--runs N]    (self test)

mod c02;
mod c02c;
mod c03;
mod c04;
mod c05;
mod c06;
mod c07;
mod c08;
mod c08d;
mod c14;
mod c15;
mod c17;
mod c17a;
mod c17w;
mod c19;
mod c20;
mod report;
mod rng;
mod runner;
mod sched;
mod sites;
mod vmsites;
mod vmh;
mod vmscript;

use runner::{Aggregate, Scenario, Spec};
use serde_json::{json, Value};
use std::time::Instant;

fn scenarios() -> Vec<&'static dyn Scenario> {
    vec![&c05::C05, &c04::C04, &c06::C06, &c07::C07, &c19::C19, &c15::THREADS_C15, &c15::THREADS_C16, &c17::C17, &c17w::C17W, &c17a::ARRIVAL_C17, &c08::C08, &c08d::C08D, &c14::C14, &c02::C02, &c02c::C02C, &c20::C20, &c03::C03, &vmscript::Script]
}

fn scenario_by_name(name: &str) -> &'static dyn Scenario {
    for s in scenarios() {
        if s.name() == name {
            return s;
        }
    }
    eprintln!("unknown scenario {}", name);
    std::process::exit(2);
}

fn level_of(property: &str) -> &'static str {
    match property {
        "C07" | "C17" => "fault_enumeration",
        _ => "exploration",
    }
}

fn arg_val(args: &[String], key: &str) -> Option<String> {
    args.iter().position(|a| a == key).and_then(|i| args.get(i + 1).cloned())
}

/// Re-exec under a fixed address-space layout and deterministic entropy so
/// that a seed replays in a fresh process.
fn pin_process() {
    if std::env::var_os("VERIF_PINNED").is_some() {
        return;
    }
    unsafe {
        let cur = libc::personality(0xffff_ffff);
        if cur >= 0 {
            libc::personality((cur as libc::c_ulong) | libc::ADDR_NO_RANDOMIZE as libc::c_ulong);
        }
    }
    let exe = std::env::current_exe().expect("current_exe");
    let shim = std::env::var("VERIF_SHIM").unwrap_or_else(|_| "/verif/shim/detrand.so".into());
    let mut cmd = std::process::Command::new(exe);
    cmd.args(std::env::args().skip(1));
    cmd.env("VERIF_PINNED", "1");
    if std::path::Path::new(&shim).exists() {
        cmd.env("LD_PRELOAD", &shim);
    }
    use std::os::unix::process::CommandExt;
    let err = cmd.exec();
    eprintln!("exec failed: {}", err);
    std::process::exit(2);
}

fn main() {
    pin_process();
    let args: Vec<String> = std::env::args().skip(1).collect();
    if args.is_empty() {
        eprintln!("usage: steelsim check|replay|one|determinism ...");
        std::process::exit(2);
    }
    let code = match args[0].as_str() {
        "check" => cmd_check(&args[1..]),
        "replay" => cmd_replay(&args[1..]),
        "one" => cmd_one(&args[1..]),
        "determinism" => cmd_determinism(&args[1..]),
        "script" => cmd_script(&args[1..]),
        "minimise" => cmd_minimise(&args[1..]),
        _ => {
            eprintln!("unknown command {}", args[0]);
            2
        }
    };
    std::process::exit(code);
}

fn base_seed() -> u64 {
    std::env::var("VERIF_SEED")
        .ok()
        .and_then(|s| s.parse::<u64>().ok())
        .unwrap_or(20260924)
}

fn cmd_check(args: &[String]) -> i32 {
    let property = args.get(0).cloned().unwrap_or_default();
    let tier = arg_val(args, "--tier")
        .or_else(|| std::env::var("VERIF_TIER").ok())
        .unwrap_or_else(|| "quick".into());
    let thorough = tier == "thorough";
    let workers: usize = arg_val(args, "--workers")
        .and_then(|s| s.parse().ok())
        .unwrap_or_else(|| std::thread::available_parallelism().map(|n| n.get()).unwrap_or(8));
    let seed = base_seed();
    let only = arg_val(args, "--scenario");
    let scns: Vec<&'static dyn Scenario> = scenarios()
        .into_iter()
        .filter(|s| s.property() == property && only.as_ref().map(|o| s.name() == o).unwrap_or(true))
        .collect();
    if scns.is_empty() {
        eprintln!("no scenario for property {}", property);
        return 2;
    }
    let start = Instant::now();
    let known = runner::load_known();
    let mut exit = 0;
    let mut total = Aggregate::default();
    let mut per_scenario = Vec::new();
    let mut violations_out: Vec<Value> = Vec::new();
    let mut known_out: Vec<Value> = Vec::new();
    let mut other_out: Vec<Value> = Vec::new();
    let mut minimised = 0usize;
    let mut rules = Vec::new();
    let mut assumptions: Vec<String> = Vec::new();
    let mut components = Vec::new();
    for scn in &scns {
        scn.setup();
        let runs: u64 = arg_val(args, "--runs")
            .and_then(|s| s.parse().ok())
            .unwrap_or_else(|| scn.default_runs(thorough));
        let budget: f64 = arg_val(args, "--budget")
            .and_then(|s| s.parse().ok())
            .unwrap_or(if thorough { 1500.0 } else { 150.0 });
        let t0 = Instant::now();
        let agg = runner::run_batch(*scn, seed, 0, runs, workers, thorough, budget);
        let wall = t0.elapsed().as_secs_f64();
        println!(
            "[{}] {}: {} runs ({} ok, {} non-trivial, {} distinct traces) in {:.1}s, {} steps, {} switches",
            property,
            scn.name(),
            agg.runs,
            agg.ok,
            agg.nontrivial,
            agg.trace_fps.len(),
            wall,
            agg.steps,
            agg.switches
        );
        if agg.harness_error_count > 0 {
            println!("HARNESS-ERROR: {} run(s): {:?}", agg.harness_error_count, agg.harness_errors);
            exit = 2;
        }
        for (sig, list) in agg.violations.iter() {
            let count = agg.violation_counts.get(sig).copied().unwrap_or(0);
            // a scenario shared by two properties reports each violation under
            // the property it belongs to; the sibling's findings are listed in
            // the evidence but decided by the sibling's check
            let sig_prop = sig.split('/').next().unwrap_or("");
            if sig_prop != property && sig_prop.len() >= 3 && sig_prop.starts_with('C') && sig_prop[1..].chars().all(|c| c.is_ascii_digit()) {
                println!("note: {} run(s) ended with a finding that belongs to {} ({})", count, sig_prop, sig);
                other_out.push(json!({"signature": sig, "runs": count}));
                continue;
            }
            if let Some(k) = known.find(&property, sig) {
                println!("KNOWN-FINDING: property={} {} [{}; seen in {} run(s), e.g. seed={} run={}]",
                    property, k.2, sig, count, list[0]["seed"], list[0]["run"]);
                known_out.push(json!({"signature": sig, "runs": count, "what": k.2}));
                continue;
            }
            let effort = if thorough { 400 } else { 150 };
            minimised += 1;
            let (spec, res) = if minimised <= 6 {
                runner::minimise(*scn, &list[0], thorough, effort)
            } else {
                // many different violations: report the rest unminimised
                runner::minimise(*scn, &list[0], thorough, 0)
            };
            let path = runner::write_replay(*scn, &spec, &res);
            println!("VIOLATION property={} replay={}", property, path);
            println!("  signature: {}  ({} run(s))", sig, count);
            println!("  detail: {}", res.detail.lines().next().unwrap_or(""));
            violations_out.push(json!({"signature": sig, "runs": count, "replay": path, "detail": res.detail}));
            if exit == 0 {
                exit = 1;
            }
        }
        per_scenario.push(json!({
            "scenario": scn.name(), "runs": agg.runs, "ok": agg.ok, "wall_s": wall,
            "runs_per_hour": if wall > 0.0 { (agg.runs as f64 / wall * 3600.0) as u64 } else { 0 },
            "simulated_steps": agg.steps, "context_switches": agg.switches, "blocked_polls": agg.polls,
            "distinct_event_traces": agg.trace_fps.len(), "distinct_schedules": agg.sched_fps.len(),
            "strategies": agg.strategies, "max_live_threads": agg.max_live,
        }));
        rules.push(format!("{}: {}", scn.name(), scn.rule()));
        for a in scn.assumptions() {
            if !assumptions.contains(&a) {
                assumptions.push(a);
            }
        }
        components.push(scn.components());
        total.merge_from(agg);
    }
    let wall = start.elapsed().as_secs_f64();
    let mut samples = total.samples.clone();
    if samples.is_empty() {
        samples.push(json!({"note": "no successful non-trivial run to sample", "runs": total.runs}));
    }
    let evidence = json!({
        "property_id": property,
        "tier": if thorough { "thorough" } else { "quick" },
        "seed": seed,
        "level": level_of(&property),
        "coverage": {
            "evaluations": total.runs,
            "distinct_nontrivial": total.nontrivial_fps.len(),
            "rule": rules.join(" | "),
            "samples": samples,
            "nontrivial_runs": total.nontrivial,
            "simulated_steps_total": total.steps,
            "context_switches_total": total.switches,
            "distinct_event_traces": total.trace_fps.len(),
            "distinct_schedules": total.sched_fps.len(),
            "faults_fired": total.faults,
            "probes": total.probes,
            "per_scenario": per_scenario,
            "components": components,
            "runs_per_hour": if wall > 0.0 { (total.runs as f64 / wall * 3600.0) as u64 } else { 0 },
            "known_findings_seen": known_out,
            "findings_of_sibling_properties": other_out,
            "violations": violations_out,
            "harness_errors": total.harness_error_count,
            "exhaustive": false,
        },
        "assumptions": assumptions,
        "wall_s": wall,
        "violations": violations_out.len(),
    });
    let dir = std::env::var("VERIF_EVIDENCE").unwrap_or_else(|_| "/verif/evidence".into());
    let _ = std::fs::create_dir_all(&dir);
    let path = format!("{}/{}.json", dir, property);
    std::fs::write(&path, serde_json::to_vec_pretty(&evidence).unwrap()).expect("write evidence");
    println!("[{}] evidence: {} ({} evaluations, {} distinct non-trivial, {:.1}s) exit={}",
        property, path, total.runs, total.nontrivial_fps.len(), wall, exit);
    exit
}

fn cmd_replay(args: &[String]) -> i32 {
    let path = match args.get(0) {
        Some(p) => p.clone(),
        None => {
            eprintln!("usage: steelsim replay <file>");
            return 2;
        }
    };
    let (name, mut spec, sig) = runner::spec_from_replay_file(&path);
    let scn = scenario_by_name(&name);
    scn.setup();
    let want_trace = args.iter().any(|a| a == "--trace");
    spec.full_trace = want_trace;
    let r = runner::run_one(scn, &spec);
    if want_trace {
        if let Some(t) = r.raw["full_trace"].as_array() {
            for e in t {
                println!("T {}", e.as_str().unwrap_or(""));
            }
        }
    }
    println!("replay {}: outcome={} signature={}", path, r.outcome, r.signature);
    if !r.detail.is_empty() {
        println!("  detail: {}", r.detail);
    }
    if let Some(t) = r.raw["tail"].as_array() {
        println!("  last events:");
        for e in t.iter().rev().take(25).rev() {
            println!("    {}", e.as_str().unwrap_or(""));
        }
    }
    if r.outcome == "violation" && r.signature == sig {
        println!("VIOLATION property={} replay={}", scn.property(), path);
        println!("REPRODUCED");
        1
    } else if r.outcome == "ok" {
        println!("NOT REPRODUCED (run passed)");
        0
    } else {
        println!("NOT REPRODUCED AS RECORDED (expected {})", sig);
        2
    }
}

fn cmd_one(args: &[String]) -> i32 {
    let scn = scenario_by_name(args.get(0).map(|s| s.as_str()).unwrap_or(""));
    let seed: u64 = args.get(1).and_then(|s| s.parse().ok()).unwrap_or_else(base_seed);
    let index: u64 = args.get(2).and_then(|s| s.parse().ok()).unwrap_or(0);
    scn.setup();
    let spec = Spec {
        seed,
        index,
        overrides: Value::Null,
        replay: None,
        strict: false,
        full_trace: args.iter().any(|a| a == "--trace"),
        tier_thorough: args.iter().any(|a| a == "--thorough"),
        gen_only: false,
    };
    let r = runner::run_one(scn, &spec);
    println!("{} {} {}", r.outcome, r.signature, r.detail);
    println!("{}", serde_json::to_string_pretty(&r.raw).unwrap());
    0
}

/// Determinism self-test: every (seed, index) twice, in different worker
/// processes; the event-trace fingerprints must be identical.
fn cmd_determinism(args: &[String]) -> i32 {
    let scn = scenario_by_name(args.get(0).map(|s| s.as_str()).unwrap_or(""));
    let runs: u64 = arg_val(args, "--runs").and_then(|s| s.parse().ok()).unwrap_or(200);
    let seed = base_seed();
    scn.setup();
    let mut bad = 0;
    let mut fps = std::collections::BTreeSet::new();
    for idx in 0..runs {
        let spec = Spec {
            seed,
            index: idx,
            overrides: Value::Null,
            replay: None,
            strict: false,
            full_trace: false,
            tier_thorough: false,
            gen_only: false,
        };
        let a = runner::run_one(scn, &spec);
        // second execution: forced from the first one's recorded decisions
        let mut spec2 = spec.clone();
        spec2.replay = Some(report::unrle(&a.raw["decisions"]));
        spec2.strict = true;
        let b = runner::run_one(scn, &spec2);
        let c = runner::run_one(scn, &spec);
        let fa = a.raw["trace_fp"].as_str().unwrap_or("?").to_string();
        let fb = b.raw["trace_fp"].as_str().unwrap_or("?").to_string();
        let fc = c.raw["trace_fp"].as_str().unwrap_or("?").to_string();
        fps.insert(fa.clone());
        if fa != fb || fa != fc || a.outcome != b.outcome || a.signature != b.signature || a.outcome != c.outcome {
            bad += 1;
            println!(
                "NONDETERMINISTIC run {}: {}/{} vs replay {}/{} vs rerun {}/{}",
                idx, a.outcome, fa, b.outcome, fb, c.outcome, fc
            );
        }
    }
    println!("determinism {}: {} runs x3, {} distinct traces, {} mismatches", scn.name(), runs, fps.len(), bad);
    if bad > 0 { 2 } else { 0 }
}

fn cmd_script(args: &[String]) -> i32 {
    let scn = scenario_by_name("script");
    scn.setup();
    let gc = arg_val(args, "--gc").unwrap_or_else(|| "0/1".into());
    let mut it = gc.split('/');
    let gc_num: u64 = it.next().and_then(|s| s.parse().ok()).unwrap_or(0);
    let gc_den: u64 = it.next().and_then(|s| s.parse().ok()).unwrap_or(1);
    let spec = Spec {
        seed: base_seed(),
        index: arg_val(args, "--index").and_then(|s| s.parse().ok()).unwrap_or(0),
        overrides: json!({
            "file": args.get(0).cloned().unwrap_or_default(),
            "jit": !args.iter().any(|a| a == "--nojit"),
            "gc_num": gc_num, "gc_den": gc_den,
            "interrupt_at": arg_val(args, "--interrupt").and_then(|s| s.parse::<u64>().ok()),
            "recycle": arg_val(args, "--recycle").and_then(|s| s.parse::<u64>().ok()),
            "chunk": arg_val(args, "--chunk").and_then(|s| s.parse::<u64>().ok()),
            "stale": args.iter().any(|a| a == "--stale"),
            "yield": args.iter().any(|a| a == "--yield"),
        }),
        replay: None,
        strict: false,
        full_trace: false,
        tier_thorough: false,
        gen_only: false,
    };
    let r = runner::run_one(scn, &spec);
    println!("{} {} {}", r.outcome, r.signature, r.detail);
    if let Some(a) = r.raw["extra"]["results"].as_array() {
        for x in a {
            println!("  {} {}", x["result"].as_str().unwrap_or(""), x["stack"].as_str().unwrap_or(""));
        }
    }
    println!("  heap: {}", r.raw["extra"]["heap"]);
    if !r.raw["extra"]["first_stale"].is_null() {
        println!("  first stale: {}", r.raw["extra"]["first_stale"]);
    }
    println!("  counters: {} steps={} switches={} faults={} probes={}", r.raw["extra"]["counters"], r.raw["steps"], r.raw["switches"], r.raw["faults"], r.raw["probes"]);
    if args.iter().any(|a| a == "--tail") {
        for e in r.raw["tail"].as_array().into_iter().flatten() {
            println!("    {}", e.as_str().unwrap_or(""));
        }
    }
    0
}

/// Re-minimise an existing replay file with a larger effort.
fn cmd_minimise(args: &[String]) -> i32 {
    let path = args.get(0).cloned().unwrap_or_default();
    let effort: usize = arg_val(args, "--effort").and_then(|s| s.parse().ok()).unwrap_or(2000);
    let text = std::fs::read_to_string(&path).expect("read replay");
    let v: Value = serde_json::from_str(&text).expect("parse replay");
    let scn = scenario_by_name(v["scenario"].as_str().unwrap_or(""));
    scn.setup();
    let first = json!({
        "seed": v["seed"], "run": v["run"], "signature": v["signature"],
        "report": {"workload": v["workload"], "decisions": v["decisions"]},
    });
    let (spec, res) = runner::minimise(scn, &first, v["thorough"].as_bool().unwrap_or(false), effort);
    let out = runner::write_replay(scn, &spec, &res);
    println!("minimised: {} ({} {})", out, res.outcome, res.signature);
    0
}
