//! C14 — modules expose what they provide and are instantiated once
//! (history / fault slice).
//!
//! Seeded acyclic module graphs (diamonds, same-named privates, only-in /
//! prefix-in modifiers, contract/out), stored half through
//! `register_steel_module` and half as files in a per-run temp directory; every
//! module body bumps a host counter. A history of evaluations on one engine
//! requires subsets in seeded orders; some evaluations fail at compile time
//! (after the requires) or at run time. Oracle: visibility model + counters.

use crate::report;
use crate::rng::Rng;
use crate::runner::{Scenario, Spec};
use crate::vmh;
use serde_json::{json, Value};
use std::collections::BTreeMap;
use std::sync::Mutex;
use steel::SteelVal;

pub struct C14;

static COUNTS: Mutex<BTreeMap<String, u64>> = Mutex::new(BTreeMap::new());

fn instantiated(args: &[SteelVal]) -> steel::rvals::Result<SteelVal> {
    if let Some(SteelVal::StringV(s)) = args.first() {
        *COUNTS.lock().unwrap().entry(s.to_string()).or_insert(0) += 1;
    }
    Ok(SteelVal::Void)
}

fn mname(i: usize) -> String {
    format!("m{}", i)
}

/// module i: value base = 100*(i+1); provides m<i>-f (function), m<i>-v (value),
/// m<i>-c (contracted function); private `secret` and `helper` in every module.
/// Every module also provides a name shared with the other modules of the same
/// parity (`tag-e` / `tag-o`, bound to its own value) and `m<i>-w`, which
/// returns the tag it sees: the one imported (through only-in) from its first
/// dependency of the other parity, or its own.
fn tag_name(i: usize) -> &'static str {
    if i % 2 == 0 { "tag-e" } else { "tag-o" }
}

/// the dependency whose tag module i imports, if any
fn tag_source(i: usize, deps: &[usize]) -> Option<usize> {
    deps.iter().copied().find(|d| d % 2 != i % 2)
}

fn module_text(i: usize, deps: &[usize], file_backed: &[bool], dir: &str) -> String {
    let base = 100 * (i as i64 + 1);
    let mut s = String::new();
    let src = tag_source(i, deps);
    // requires inside a module use every modifier: the dependency that supplies
    // the tag comes through only-in; of the others, every second one through
    // prefix-in, the rest plain or only-in by position
    let mut calls: Vec<String> = Vec::new();
    for (k, d) in deps.iter().enumerate() {
        let target = if file_backed[*d] { format!("{}/m{}.scm", dir, d) } else { format!("m{}", d) };
        if Some(*d) == src {
            s.push_str(&format!("(require (only-in \"{}\" m{}-f {}))\n", target, d, tag_name(*d)));
            calls.push(format!("(m{}-f)", d));
        } else if d % 2 != i % 2 {
            // same tag name as the source's: must not come in with this require
            s.push_str(&format!("(require (only-in \"{}\" m{}-f m{}-v))\n", target, d, d));
            calls.push(format!("(m{}-f)", d));
        } else if k % 2 == 0 {
            s.push_str(&format!("(require (prefix-in q{}. \"{}\"))\n", d, target));
            calls.push(format!("(q{d}.m{d}-f)", d = d));
        } else {
            s.push_str(&format!("(require (only-in \"{}\" m{}-f))\n", target, d));
            calls.push(format!("(m{}-f)", d));
        }
    }
    s.push_str(&format!(
        "(provide m{i}-f m{i}-v m{i}-w {tag} (contract/out m{i}-c (->/c int? int?)) (contract/out m{i}-d (->/c {doms} int?)) (for-syntax m{i}-mac))\n(instantiated! \"m{i}\")\n(define secret {sec})\n(define (helper x) (+ x secret))\n(define (inner-only x) (helper x))\n(define-syntax m{i}-mac (syntax-rules () [(_ x) (helper x)]))\n(define m{i}-v {v})\n(define {tag} {t})\n(define (m{i}-d {dparams}) (+ secret {dar}))\n",
        i = i,
        doms = (0..d_arity(i)).map(|p| d_contract(i, p).0).collect::<Vec<_>>().join(" "),
        dparams = (0..d_arity(i)).map(|p| format!("d{}", p)).collect::<Vec<_>>().join(" "),
        dar = d_arity(i),
        sec = base + 1,
        v = base + 2,
        tag = tag_name(i),
        t = base + 3
    ));
    let mut body = format!("(helper {})", base);
    for c in &calls {
        body = format!("(+ {} {})", body, c);
    }
    let seen_tag = match src {
        Some(d) => tag_name(d),
        None => tag_name(i),
    };
    s.push_str(&format!(
        "(define (m{i}-f) {body})\n(define (m{i}-c x) (+ x secret))\n(define (m{i}-w) {seen})\n",
        i = i,
        body = body,
        seen = seen_tag
    ));
    s
}

/// `m<i>-d`: a contracted function with 1-4 parameters whose domain contracts
/// differ from position to position (rotated by i).
const CONTRACTS: [(&str, &str); 4] = [("int?", "7"), ("string?", "\"s\""), ("symbol?", "'y"), ("boolean?", "#t")];

fn d_arity(i: usize) -> usize {
    i % 4 + 1
}

fn d_contract(i: usize, pos: usize) -> (&'static str, &'static str) {
    CONTRACTS[(i + pos) % 4]
}

/// arguments for (m<i>-d ...): all legal, or with position `bad` holding a value
/// that satisfies the NEXT position's contract (or the previous one's) instead of its own
fn d_args(i: usize, bad: Option<usize>) -> String {
    (0..d_arity(i))
        .map(|p| match bad {
            Some(b) if b == p => d_contract(i, p + 1).1.to_string(),
            _ => d_contract(i, p).1.to_string(),
        })
        .collect::<Vec<_>>()
        .join(" ")
}

/// value of (m<i>-w)
fn w_value(i: usize, deps: &Vec<Vec<usize>>) -> i64 {
    match tag_source(i, &deps[i]) {
        Some(d) => 100 * (d as i64 + 1) + 3,
        None => 100 * (i as i64 + 1) + 3,
    }
}

/// value of (m<i>-f)
fn f_value(i: usize, deps: &Vec<Vec<usize>>) -> i64 {
    let base = 100 * (i as i64 + 1);
    let mut v = base + base + 1;
    for d in &deps[i] {
        v += f_value(*d, deps);
    }
    v
}

fn gen_workload(rng: &mut Rng, thorough: bool) -> Value {
    let n = rng.range(2, if thorough { 8 } else { 6 }) as usize;
    let mut deps: Vec<Vec<usize>> = Vec::new();
    for i in 0..n {
        let mut d = Vec::new();
        for j in 0..i {
            if rng.chance(1, 3) {
                d.push(j);
            }
        }
        deps.push(d);
    }
    let file_backed: Vec<bool> = (0..n).map(|_| rng.chance(1, 2)).collect();
    let nsteps = rng.range(3, if thorough { 20 } else { 9 });
    let mut steps = Vec::new();
    for _ in 0..nsteps {
        let k = rng.range(1, 3.min(n as u64)) as usize;
        let mut mods: Vec<usize> = (0..n).collect();
        rng.shuffle(&mut mods);
        mods.truncate(k);
        let reqs: Vec<Value> = mods
            .iter()
            .map(|m| {
                let modifier = *rng.pick(&["plain", "plain", "only-f", "prefix"]);
                json!({"m": m, "mod": modifier})
            })
            .collect();
        let kind = *rng.pick(&["ok", "ok", "ok", "compile-fail", "runtime-fail", "private-probe", "contract-probe"]);
        steps.push(json!({"reqs": reqs, "kind": kind, "own_secret": rng.chance(1, 3), "cv": rng.below(1000)}));
    }
    json!({"jit": rng.chance(1, 2), "n": n, "deps": deps, "file_backed": file_backed, "steps": steps})
}

impl Scenario for C14 {
    fn name(&self) -> &'static str {
        "c14-modules"
    }
    fn property(&self) -> &'static str {
        "C14"
    }
    fn setup(&self) {
        vmh::build_prototypes(true, true);
    }
    fn default_runs(&self, thorough: bool) -> u64 {
        if thorough { 60_000 } else { 1_200 }
    }
    fn timeout_ms(&self) -> u64 {
        60_000
    }

    fn child(&self, spec: &Spec) {
        let mut wrng = Rng::derive(spec.seed, spec.index, 1);
        let w = if spec.overrides.is_null() { gen_workload(&mut wrng, spec.tier_thorough) } else { spec.overrides.clone() };
        report::set_workload(w.clone());
        if spec.gen_only {
            return;
        }
        let jit = w["jit"].as_bool().unwrap_or(true);
        let tier = if jit { "jit" } else { "nojit" };
        let mut faults = vmh::default_faults(spec.seed, spec.index);
        faults.heap_chunk = 256;
        let mut engine = vmh::start(
            spec,
            vmh::VmOptions {
                property: "C14",
                jit,
                faults,
                yield_at_dispatch: false,
                max_steps: 500_000_000,
                expected_steps: 20_000,
                on_stop: report::stop_is_harness_error,
                panic_class: |m| vmh::panic_signature("C14", m),
            },
        );
        vmh::set_stale_is_violation(false);
        COUNTS.lock().unwrap().clear();
        engine.register_value("instantiated!", SteelVal::FuncV(instantiated));
        let n = w["n"].as_u64().unwrap_or(2) as usize;
        let deps: Vec<Vec<usize>> = w["deps"]
            .as_array()
            .unwrap()
            .iter()
            .map(|d| d.as_array().unwrap().iter().map(|x| x.as_u64().unwrap() as usize).collect())
            .collect();
        let file_backed: Vec<bool> = w["file_backed"].as_array().unwrap().iter().map(|b| b.as_bool().unwrap()).collect();
        // module store: a per-run temp directory + in-memory registrations
        let dir = format!("/tmp/steelsim-c14-{}-{}", std::process::id(), spec.index);
        let _ = std::fs::create_dir_all(&dir);
        for i in 0..n {
            let text = module_text(i, &deps[i], &file_backed, &dir);
            if file_backed[i] {
                std::fs::write(format!("{}/m{}.scm", dir, i), &text).expect("write module file");
            } else {
                engine.register_steel_module(mname(i), text);
            }
        }
        let target = |m: usize| -> String {
            if file_backed[m] {
                format!("{}/m{}.scm", dir, m)
            } else {
                mname(m)
            }
        };
        // which modules a successful evaluation has required (transitively)
        let mut should_be_instantiated = vec![false; n];
        // modules that a build has kept (compiled in an evaluation whose build
        // succeeded), and registered modules whose first build was a failed one
        let mut built = vec![false; n];
        let mut first_built_in_failed_build = vec![false; n];
        fn mark(m: usize, deps: &Vec<Vec<usize>>, out: &mut Vec<bool>) {
            out[m] = true;
            for d in &deps[m] {
                mark(*d, deps, out);
            }
        }
        let cleanup = |dir: &str| {
            let _ = std::fs::remove_dir_all(dir);
        };
        let steps = w["steps"].as_array().cloned().unwrap_or_default();
        for (si, st) in steps.iter().enumerate() {
            let kind = st["kind"].as_str().unwrap_or("ok");
            vmh::set_context(&format!("{}/{}", tier, kind));
            let mut src = String::new();
            let mut checks: Vec<(String, String)> = Vec::new(); // (expr, expected)
            let mut required: Vec<usize> = Vec::new();
            for r in st["reqs"].as_array().into_iter().flatten() {
                let m = r["m"].as_u64().unwrap() as usize;
                if required.contains(&m) {
                    continue;
                }
                required.push(m);
                let base = 100 * (m as i64 + 1);
                match r["mod"].as_str().unwrap_or("plain") {
                    "only-f" => {
                        src.push_str(&format!("(require (only-in \"{}\" m{}-f))\n", target(m), m));
                        checks.push((format!("(m{}-f)", m), f_value(m, &deps).to_string()));
                    }
                    "prefix" => {
                        src.push_str(&format!("(require (prefix-in p{}. \"{}\"))\n", m, target(m)));
                        checks.push((format!("(p{m}.m{m}-f)", m = m), f_value(m, &deps).to_string()));
                        checks.push((format!("p{m}.m{m}-v", m = m), (base + 2).to_string()));
                        checks.push((format!("(p{m}.m{m}-w)", m = m), w_value(m, &deps).to_string()));
                    }
                    _ => {
                        src.push_str(&format!("(require \"{}\")\n", target(m)));
                        checks.push((format!("(m{}-f)", m), f_value(m, &deps).to_string()));
                        checks.push((format!("m{}-v", m), (base + 2).to_string()));
                        checks.push((format!("(m{}-c 1)", m), (base + 2).to_string()));
                        checks.push((format!("(m{}-d {})", m, d_args(m, None)), (base + 1 + d_arity(m) as i64).to_string()));
                        checks.push((format!("(m{}-w)", m), w_value(m, &deps).to_string()));
                        // a macro the module provides: its expansion calls the module's
                        // private helper, whatever the requirer calls helper itself
                        checks.push((format!("(m{}-mac 5)", m), (base + 1 + 5).to_string()));
                    }
                }
            }
            let own_secret = st["own_secret"].as_bool().unwrap_or(false);
            if own_secret {
                // the requiring program's own private with the same name
                src.push_str(&format!("(define secret {})\n(define (helper x) (- secret x))\n", 9000 + si));
                checks.push(("secret".to_string(), (9000 + si).to_string()));
                checks.push(("(helper 3)".to_string(), (9000 + si as i64 - 3).to_string()));
            }
            let exprs: Vec<String> = checks.iter().map(|c| c.0.clone()).collect();
            let expect = format!("({})", checks.iter().map(|c| c.1.clone()).collect::<Vec<_>>().join(" "));
            match kind {
                "compile-fail" => src.push_str("(list (this-is-not-defined-anywhere))\n"),
                "runtime-fail" => src.push_str(&format!("(list {})\n(car 5)\n", exprs.join(" "))),
                "private-probe" => {
                    // a private name of a required module must not be visible
                    if own_secret {
                        src.push_str(&format!("(list {})\n", exprs.join(" ")));
                    } else {
                        src.push_str("(list (inner-only 1))\n");
                    }
                }
                "contract-probe" => {
                    let plain: Vec<usize> = st["reqs"]
                        .as_array()
                        .into_iter()
                        .flatten()
                        .filter(|r| r["mod"] == "plain")
                        .map(|r| r["m"].as_u64().unwrap() as usize)
                        .collect();
                    match plain.first() {
                        Some(m) => match st["cv"].as_u64() {
                            // one argument of the multi-argument contracted function holds a
                            // value that only its neighbour's contract accepts
                            Some(cv) if cv % 3 != 0 => src.push_str(&format!("(list (m{}-d {}))\n", m, d_args(*m, Some(cv as usize % d_arity(*m))))),
                            _ => src.push_str(&format!("(list (m{}-c \"not an int\"))\n", m)),
                        },
                        None => src.push_str(&format!("(list {})\n", exprs.join(" "))),
                    }
                }
                _ => src.push_str(&format!("(list {})\n", exprs.join(" "))),
            }
            let res = vmh::eval(&mut engine, &src);
            // Recorded defect: a module whose first require happened in an
            // evaluation that failed at compile time cannot be required again
            // (its definitions were rolled back, the module cache says it has
            // been emitted already).
            let mut closure = vec![false; n];
            for m in &required {
                mark(*m, &deps, &mut closure);
            }
            if let Err(e) = &res {
                if e.contains("__module-") && e.contains("FreeIdentifier") {
                    // the recorded defect concerns registered (in-memory) modules only:
                    // for modules read from files the failed build is undone completely
                    let registered_lost = (0..n).any(|m| closure[m] && first_built_in_failed_build[m] && !file_backed[m]);
                    cleanup(&dir);
                    report::violation(
                        &format!(
                            "C14/{}/module-lost-after-failed-compilation/{}",
                            tier,
                            if registered_lost { "registered-module" } else { "file-module" }
                        ),
                        format!("step {} ({}): {}\n=> {}", si, kind, src, e),
                    );
                }
            }
            let build_failed = kind == "compile-fail" || (kind == "private-probe" && !own_secret);
            for m in 0..n {
                if closure[m] && !built[m] {
                    if build_failed {
                        first_built_in_failed_build[m] = true;
                    } else {
                        built[m] = true;
                    }
                }
            }
            let detail = |what: &str, res: &Result<Vec<String>, String>| format!("step {} ({}): {}\n{}\n=> {:?}", si, kind, what, src, res);
            let expects_ok = match kind {
                "ok" => true,
                "private-probe" => own_secret,
                "contract-probe" => !st["reqs"].as_array().into_iter().flatten().any(|r| r["mod"] == "plain"),
                _ => false,
            };
            match (&res, expects_ok) {
                (Ok(v), true) => {
                    if v.last().map(|s| s.as_str()) != Some(expect.as_str()) {
                        cleanup(&dir);
                        report::violation(
                            &format!("C14/{}/wrong-values", tier),
                            detail(&format!("expected {}", expect), &res),
                        );
                    }
                    for m in &required {
                        mark(*m, &deps, &mut should_be_instantiated);
                    }
                }
                (Err(_), true) => {
                    cleanup(&dir);
                    report::violation(&format!("C14/{}/unexpected-error", tier), detail("expected success", &res));
                }
                (Ok(_), false) => {
                    cleanup(&dir);
                    let what = match kind {
                        "private-probe" => "a private definition of a required module is visible to the requirer",
                        "contract-probe" => "a contract violation at the module boundary was not reported",
                        _ => "a failing program returned Ok",
                    };
                    report::violation(&format!("C14/{}/{}-succeeded", tier, kind), detail(what, &res));
                }
                (Err(_), false) => {
                    if kind == "runtime-fail" {
                        // the module bodies ran before the failing form
                        for m in &required {
                            mark(*m, &deps, &mut should_be_instantiated);
                        }
                    }
                }
            }
            // counters: never more than once
            let counts = COUNTS.lock().unwrap().clone();
            for (m, c) in counts.iter() {
                if *c > 1 {
                    cleanup(&dir);
                    report::violation(
                        &format!("C14/{}/module-instantiated-more-than-once", tier),
                        format!("after step {} ({}): module {} was instantiated {} times\n{}", si, kind, m, c, src),
                    );
                }
            }
        }
        let counts = COUNTS.lock().unwrap().clone();
        for m in 0..n {
            let c = counts.get(&mname(m)).copied().unwrap_or(0);
            if should_be_instantiated[m] && c != 1 {
                cleanup(&dir);
                report::violation(
                    &format!("C14/{}/module-not-instantiated-exactly-once", tier),
                    format!("module m{} was required by a successful evaluation but its body ran {} times", m, c),
                );
            }
        }
        cleanup(&dir);
        report::set_extra("modules", json!(n));
        report::set_nontrivial(should_be_instantiated.iter().filter(|b| **b).count() >= 2);
    }

    fn shrink(&self, w: &Value) -> Vec<Value> {
        let mut out = Vec::new();
        let n = w["steps"].as_array().map(|a| a.len()).unwrap_or(0);
        for i in (0..n).rev() {
            let mut c = w.clone();
            c["steps"].as_array_mut().unwrap().remove(i);
            out.push(c);
        }
        out
    }

    fn rule(&self) -> String {
        "each evaluation = one forked run: an acyclic graph of 2-8 modules (random dependencies incl. diamonds; every module has privates `secret` and `helper` with its own values, provides a function that sums over its dependencies, a value, a contracted function and a tag whose name it shares with every module of the same parity; inside a module the dependencies are required through only-in / prefix-in by position, the tag of one dependency is imported through only-in and must not be replaced by the same-named tag of a later dependency; its body bumps a host counter), stored through register_steel_module or as files in a per-run temp directory (mixed); a history of 3-20 evaluations on one engine requires 1-3 modules each with plain / only-in / prefix-in modifiers, optionally defines its own `secret`, and is one of: ok, compile-time failure after the requires, run-time failure after the module bodies ran, probe of a private name, probe of a contract violation; oracle: provided names evaluate to the providing module's values, privates and filtered names are not visible, contracts are checked at the boundary, every counter is <= 1 always and == 1 for modules required by an evaluation whose bodies ran; JIT on/off; non-trivial = at least two modules instantiated".into()
    }
    fn assumptions(&self) -> Vec<String> {
        vec![
            "module graphs are acyclic; two modules are never required into one program under clashing names".into(),
            "files live in a per-run temp directory under /tmp which the run removes".into(),
        ]
    }
    fn components(&self) -> Value {
        json!({"real": ["module manager (compile, cache, rollback metadata)", "require modifiers", "contract/out", "compiler", "VM", "JIT (per run on/off)"],
               "simulated": ["module storage (in-memory registrations + temp-dir files)", "evaluation history with failing programs", "host counter"]})
    }
}
