//! Debug scenario: run a script file under the simulator with chosen faults.
//!   steelsim script <file> [--nojit] [--gc N/D] [--interrupt K] [--yield]

use crate::report;
use crate::runner::{Scenario, Spec};
use crate::vmh;
use serde_json::{json, Value};

pub struct Script;

impl Scenario for Script {
    fn name(&self) -> &'static str {
        "script"
    }
    fn property(&self) -> &'static str {
        "DEBUG"
    }
    fn setup(&self) {
        vmh::build_prototypes(true, true);
    }
    fn default_runs(&self, _t: bool) -> u64 {
        1
    }
    fn child(&self, spec: &Spec) {
        let o = &spec.overrides;
        let mut faults = vmh::default_faults(spec.seed, spec.index);
        faults.gc_num = o["gc_num"].as_u64().unwrap_or(0);
        faults.gc_den = o["gc_den"].as_u64().unwrap_or(1);
        faults.interrupt_at = o["interrupt_at"].as_u64();
        faults.recycle_threshold = o["recycle"].as_u64().unwrap_or(0) as usize;
        faults.heap_chunk = o["chunk"].as_u64().unwrap_or(0) as usize;
        let mut engine = vmh::start(
            spec,
            vmh::VmOptions {
                property: "DEBUG",
                jit: o["jit"].as_bool().unwrap_or(true),
                faults,
                yield_at_dispatch: o["yield"].as_bool().unwrap_or(false),
                max_steps: 50_000_000,
                expected_steps: 10_000,
                on_stop: report::stop_is_harness_error,
                panic_class: |m| vmh::panic_signature("DEBUG", m),
            },
        );
        vmh::set_stale_is_violation(o["stale"].as_bool().unwrap_or(false));
        let src = std::fs::read_to_string(o["file"].as_str().unwrap_or("")).unwrap_or_default();
        // forms separated by a line containing only ";;;;" are evaluated separately
        let mut out = Vec::new();
        for piece in src.split("\n;;;;\n") {
            let r = vmh::eval(&mut engine, piece);
            out.push(json!({"result": format!("{:?}", r), "stack": format!("{:?}", engine.verif_stack_state())}));
        }
        report::set_extra("results", Value::Array(out));
        report::set_extra("heap", json!(format!("{:?} symbol slots (free, shadowed) {:?}", engine.verif_heap_stats(), engine.verif_symbol_slots())));
        report::set_extra(
            "counters",
            json!({
                "dispatches": vmh::DISPATCHES.load(std::sync::atomic::Ordering::Relaxed),
                "full_collections": vmh::FULL_COLLECTIONS.load(std::sync::atomic::Ordering::Relaxed),
                "stale": vmh::STALE_SLOTS.load(std::sync::atomic::Ordering::Relaxed),
            }),
        );
    }
    fn rule(&self) -> String {
        "debug".into()
    }
    fn assumptions(&self) -> Vec<String> {
        vec![]
    }
    fn components(&self) -> Value {
        json!({})
    }
}
