//! C02 — observable behaviour is independent of JIT and optimisation
//! configuration (configuration x history slice).
//!
//! One history (a generated C06-style evaluation history with redefinitions
//! and assignments that earlier compiled functions depend on, or one of the
//! repository's deterministic test scripts followed by probes) is run under
//! the reference configuration (interpreter, no switches) and under k sampled
//! configurations of the 32, each in its own forked process on its own engine;
//! the transcripts (per evaluation: Ok + rendered last value, or Err + error
//! kind) must be identical.

use crate::c06;
use crate::report;
use crate::rng::Rng;
use crate::runner::{Scenario, Spec};
use crate::vmh;
use serde_json::{json, Value};
use steel::steel_vm::engine::Engine;

pub struct C02;

#[derive(Clone, Copy, Debug, PartialEq)]
pub(crate) struct Config {
    pub jit: bool,
    pub inline: bool,
    pub inline_rec: bool,
    pub lifting_off: bool,
    pub module_inline: bool,
}

impl Config {
    pub(crate) fn from_bits(b: u64) -> Config {
        Config { jit: b & 1 != 0, inline: b & 2 != 0, inline_rec: b & 4 != 0, lifting_off: b & 8 != 0, module_inline: b & 16 != 0 }
    }
    pub(crate) fn name(&self) -> String {
        format!(
            "jit={} inline={} inline_recursive={} closure_lifting={} module_inline={}",
            self.jit as u8, self.inline as u8, self.inline_rec as u8, !self.lifting_off as u8, self.module_inline as u8
        )
    }
    fn apply_env(&self) {
        let set = |k: &str, on: bool, v: &str| {
            if on {
                std::env::set_var(k, v)
            } else {
                std::env::remove_var(k)
            }
        };
        if self.jit {
            std::env::remove_var("STEEL_JIT");
        } else {
            std::env::set_var("STEEL_JIT", "false");
        }
        set("STEEL_INLINE", self.inline, "1");
        set("STEEL_INLINE_RECURSIVE", self.inline_rec, "1");
        set("STEEL_CLOSURE_LIFTING", self.lifting_off, "false");
        set("STEEL_MODULE_INLINE", self.module_inline, "1");
    }
}

fn err_kind(e: &str) -> String {
    // "Error: Kind: message" -> Kind
    e.split(':').nth(1).unwrap_or("?").trim().to_string()
}

/// the evaluations of a history as source texts
fn evaluations(w: &Value) -> Vec<String> {
    match w["kind"].as_str().unwrap_or("history") {
        "script" => {
            let path = w["script"].as_str().unwrap_or("");
            let text = std::fs::read_to_string(path).unwrap_or_default();
            vec![
                text,
                "(define c02-probe 41)\n(+ c02-probe 1)".to_string(),
                "(map (lambda (x) (* x x)) (list 1 2 3))".to_string(),
            ]
        }
        _ => {
            let mut out = Vec::new();
            for st in w["history"]["steps"].as_array().into_iter().flatten() {
                let forms = st.as_array().cloned().unwrap_or_default();
                if forms.len() == 1 && (forms[0][0] == "hostdef" || forms[0][0] == "hostset") {
                    // host steps become script steps here
                    let name = forms[0][1].as_str().unwrap();
                    if forms[0][0] == "hostdef" {
                        out.push(format!("(define {} {})", name, forms[0][2]));
                    } else {
                        out.push(format!("(set! {} {})", name, forms[0][2]));
                    }
                    continue;
                }
                let src: Vec<String> = forms.iter().map(c06::render).collect();
                out.push(src.join("\n"));
                // observe everything after every step
                out.push("(list (with-handler (lambda (e) 'unbound) va) (with-handler (lambda (e) 'unbound) vb) (with-handler (lambda (e) 'unbound) (fa)) (with-handler (lambda (e) 'unbound) (fb)))".to_string());
            }
            out
        }
    }
}

fn transcript(engine: &mut Engine, evals: &[String]) -> Vec<String> {
    let mut t = Vec::new();
    for src in evals {
        let r = std::panic::catch_unwind(std::panic::AssertUnwindSafe(|| vmh::eval(engine, src)));
        match r {
            Ok(Ok(v)) => t.push(format!("Ok:{}", v.last().cloned().unwrap_or_default())),
            Ok(Err(e)) => t.push(format!("Err:{}", err_kind(&e))),
            Err(_) => {
                // a host panic is C07's business; here it is one more observable
                // outcome that must not depend on the configuration
                t.push("Panic".to_string());
                break;
            }
        }
    }
    t
}

/// Real-time limit for one configuration (seconds); the histories take
/// milliseconds to seconds.
const CONFIG_TIMEOUT_S: u32 = 40;

/// Run the history under `cfg` in a forked grandchild and return its transcript.
pub(crate) fn run_config(cfg: Config, evals: &[String], fresh_engine: bool, spec: &Spec) -> Result<Vec<String>, String> {
    let mut fds = [0i32; 2];
    unsafe {
        if libc::pipe(fds.as_mut_ptr()) != 0 {
            return Err("pipe failed".into());
        }
    }
    let pid = unsafe { libc::fork() };
    if pid < 0 {
        return Err("fork failed".into());
    }
    if pid == 0 {
        unsafe { libc::close(fds[0]) };
        // grandchild: its only channel is this pipe; a panic is caught and
        // reported through it, a crash shows as a short read. It must not keep
        // the run's report pipe open (the driver waits for end-of-file on it),
        // must not outlive the run, and must not run for ever.
        let inherited = report::REPORT_FD.swap(-1, std::sync::atomic::Ordering::SeqCst);
        unsafe {
            if inherited >= 0 {
                libc::close(inherited);
            }
            libc::prctl(libc::PR_SET_PDEATHSIG, libc::SIGKILL);
            libc::alarm(CONFIG_TIMEOUT_S);
        }
        static PANIC_MSG: std::sync::Mutex<String> = std::sync::Mutex::new(String::new());
        std::panic::set_hook(Box::new(|info| {
            let msg = if let Some(s) = info.payload().downcast_ref::<&str>() {
                s.to_string()
            } else if let Some(s) = info.payload().downcast_ref::<String>() {
                s.clone()
            } else {
                "?".to_string()
            };
            let loc = info.location().map(|l| format!("{}:{}", l.file(), l.line())).unwrap_or_default();
            *PANIC_MSG.lock().unwrap() = format!("{} at {}", msg, loc);
        }));
        cfg.apply_env();
        let mut engine = if fresh_engine {
            steel::verif::uninstall();
            Engine::new()
        } else {
            vmh::take_engine(cfg.jit)
        };
        let _ = spec;
        let t = std::panic::catch_unwind(std::panic::AssertUnwindSafe(|| transcript(&mut engine, evals)));
        let out = match t {
            Ok(t) => json!({"transcript": t}),
            Err(_) => json!({"panic": true, "message": PANIC_MSG.lock().unwrap().clone()}),
        };
        let bytes = serde_json::to_vec(&out).unwrap();
        let mut off = 0;
        while off < bytes.len() {
            let n = unsafe { libc::write(fds[1], bytes[off..].as_ptr() as *const libc::c_void, bytes.len() - off) };
            if n <= 0 {
                break;
            }
            off += n as usize;
        }
        unsafe { libc::_exit(0) };
    }
    unsafe { libc::close(fds[1]) };
    let mut buf = Vec::new();
    let mut tmp = vec![0u8; 1 << 16];
    loop {
        let n = unsafe { libc::read(fds[0], tmp.as_mut_ptr() as *mut libc::c_void, tmp.len()) };
        if n > 0 {
            buf.extend_from_slice(&tmp[..n as usize]);
        } else if n == 0 {
            break;
        } else if std::io::Error::last_os_error().kind() != std::io::ErrorKind::Interrupted {
            break;
        }
    }
    let mut status = 0;
    unsafe {
        libc::close(fds[0]);
        libc::waitpid(pid, &mut status, 0);
    }
    match serde_json::from_slice::<Value>(&buf) {
        Ok(v) => {
            if v["panic"].as_bool().unwrap_or(false) {
                return Err(format!("host panic: {}", v["message"].as_str().unwrap_or("")));
            }
            Ok(v["transcript"].as_array().into_iter().flatten().map(|s| s.as_str().unwrap_or("").to_string()).collect())
        }
        Err(_) => {
            if libc::WIFSIGNALED(status) && libc::WTERMSIG(status) == libc::SIGALRM {
                // did not finish in time: an outcome like any other, compared across configurations
                return Ok(vec![format!("Timeout: no result within {} s", CONFIG_TIMEOUT_S)]);
            }
            Err(format!("process ended without a transcript (status {})", status))
        }
    }
}

const SCRIPT_DIR: &str = "/repo/crates/steel-core/src/tests/success";
/// scripts whose output depends on time, addresses, threads or the file system
const SKIP: &[&str] = &["native_threads", "gc_deadlock", "threads", "ports", "read", "docs", "help", "print", "require_alias", "require_only_in", "require_prefix", "dll"];

fn scripts() -> Vec<String> {
    let mut v: Vec<String> = std::fs::read_dir(SCRIPT_DIR)
        .map(|d| {
            d.filter_map(|e| e.ok())
                .map(|e| e.path())
                .filter(|p| p.extension().map(|x| x == "scm").unwrap_or(false))
                .filter(|p| !SKIP.contains(&p.file_stem().and_then(|s| s.to_str()).unwrap_or("")))
                .map(|p| p.to_string_lossy().to_string())
                .collect()
        })
        .unwrap_or_default();
    v.sort();
    v
}

fn gen_workload(rng: &mut Rng, thorough: bool) -> Value {
    let k = if thorough { 31 } else { 4 };
    let mut cfgs: Vec<u64> = (1..32).collect();
    rng.shuffle(&mut cfgs);
    cfgs.truncate(k);
    let fresh = rng.chance(1, 12);
    let sc = scripts();
    if !sc.is_empty() && rng.chance(1, 4) {
        let s = rng.pick(&sc).clone();
        return json!({"kind": "script", "script": s, "configs": cfgs, "fresh_engine": fresh});
    }
    let h = c06::gen_history(rng, false);
    json!({"kind": "history", "history": h, "configs": cfgs, "fresh_engine": fresh})
}

impl Scenario for C02 {
    fn name(&self) -> &'static str {
        "c02-config"
    }
    fn property(&self) -> &'static str {
        "C02"
    }
    fn setup(&self) {
        vmh::build_prototypes(true, true);
    }
    fn default_runs(&self, thorough: bool) -> u64 {
        if thorough { 6_000 } else { 300 }
    }
    fn timeout_ms(&self) -> u64 {
        180_000
    }

    fn child(&self, spec: &Spec) {
        let mut wrng = Rng::derive(spec.seed, spec.index, 1);
        let w = if spec.overrides.is_null() { gen_workload(&mut wrng, spec.tier_thorough) } else { spec.overrides.clone() };
        report::set_workload(w.clone());
        if spec.gen_only {
            return;
        }
        report::install_panic_hook(|m| vmh::panic_signature("C02", m));
        let evals = evaluations(&w);
        let fresh = w["fresh_engine"].as_bool().unwrap_or(false);
        let reference = Config::from_bits(0);
        let base = match run_config(reference, &evals, fresh, spec) {
            Ok(t) => t,
            Err(e) => report::violation(
                "C02/reference-configuration-crashed",
                format!("the reference configuration did not produce a transcript: {}", e),
            ),
        };
        report::set_nontrivial(base.iter().filter(|l| l.starts_with("Ok:")).count() >= 2);
        if base.iter().any(|l| l.starts_with("Timeout:")) {
            report::probe("reference-configuration-timed-out");
            report::set_extra("timed_out_source", json!(evals.join("\n;;;;\n").chars().take(4000).collect::<String>()));
        }
        for bits in w["configs"].as_array().into_iter().flatten() {
            let cfg = Config::from_bits(bits.as_u64().unwrap_or(0));
            report::fault(&format!("config:{}", cfg.name()));
            match run_config(cfg, &evals, fresh, spec) {
                Ok(t) => {
                    if t != base {
                        let at = t.iter().zip(base.iter()).position(|(a, b)| a != b).unwrap_or(t.len().min(base.len()));
                        let switches = {
                            let mut s = Vec::new();
                            if cfg.jit {
                                s.push("jit");
                            }
                            if cfg.inline {
                                s.push("inline");
                            }
                            if cfg.inline_rec {
                                s.push("inline_recursive");
                            }
                            if cfg.lifting_off {
                                s.push("no_closure_lifting");
                            }
                            if cfg.module_inline {
                                s.push("module_inline");
                            }
                            s.join("+")
                        };
                        report::violation(
                            &format!("C02/transcript-differs/{}", switches),
                            format!(
                                "evaluation {} differs under [{}]: {:?} vs reference {:?}\nsource: {}",
                                at,
                                cfg.name(),
                                t.get(at),
                                base.get(at),
                                evals.get(at).map(|s| s.chars().take(300).collect::<String>()).unwrap_or_default()
                            ),
                        );
                    }
                }
                Err(e) => report::violation(
                    &format!("C02/configuration-crashed/{}", cfg.name().replace(' ', ",")),
                    format!("configuration [{}] did not produce a transcript: {}", cfg.name(), e),
                ),
            }
        }
    }

    fn shrink(&self, w: &Value) -> Vec<Value> {
        let mut out = Vec::new();
        // fewer configurations first
        let n = w["configs"].as_array().map(|a| a.len()).unwrap_or(0);
        if n > 1 {
            for i in (0..n).rev() {
                let mut c = w.clone();
                c["configs"].as_array_mut().unwrap().remove(i);
                out.push(c);
            }
        }
        if w["kind"] == "history" {
            let m = w["history"]["steps"].as_array().map(|a| a.len()).unwrap_or(0);
            if m > 8 {
                let mut c = w.clone();
                c["history"]["steps"].as_array_mut().unwrap().truncate(m / 2);
                out.push(c);
            }
            for i in (0..m).rev() {
                let mut c = w.clone();
                c["history"]["steps"].as_array_mut().unwrap().remove(i);
                out.push(c);
            }
        }
        out
    }

    fn rule(&self) -> String {
        "each evaluation = one forked run: a generated evaluation history (define / define function / redefine / set! / multi-form and failing programs, observed after every step) or one of the repository's deterministic test scripts followed by probe evaluations, executed under the reference configuration (STEEL_JIT=false, no switches) and under 4 (quick) or all 31 (thorough) other combinations of STEEL_JIT, STEEL_INLINE, STEEL_INLINE_RECURSIVE, STEEL_CLOSURE_LIFTING, STEEL_MODULE_INLINE, each in its own process on its own engine (1 run in 12 builds the engine, prelude included, under the configuration; the others start from a prototype engine of the right tier and set the compile-time switches before compiling the history); oracle: identical transcripts (Ok + rendered value / Err + error kind per evaluation); non-trivial = at least two evaluations succeeded".into()
    }
    fn assumptions(&self) -> Vec<String> {
        vec![
            "agreement on arbitrary programs is differential testing over the program space and is not decided here; the slice is configuration x evaluation history".into(),
            "scripts that print addresses, times, use threads or the file system are skipped".into(),
        ]
    }
    fn components(&self) -> Value {
        json!({"real": ["compiler passes behind the switches", "VM", "JIT"], "simulated": ["configuration (environment switches per engine)", "evaluation history"]})
    }
}
