//! Parent side: fork one child per run, collect reports, aggregate,
//! minimise violations, write replay files and evidence.

use crate::report;
use serde_json::{json, Map, Value};
use std::collections::{BTreeMap, BTreeSet};
use std::io::Write;
use std::time::Instant;

#[derive(Clone, Debug)]
pub struct Spec {
    pub seed: u64,
    pub index: u64,
    /// scenario-specific overrides (explicit workload for replay / shrinking)
    pub overrides: Value,
    pub replay: Option<Vec<u8>>,
    pub strict: bool,
    pub full_trace: bool,
    pub tier_thorough: bool,
    /// only generate the workload and report it (used to recover the workload
    /// of a run that crashed or hung before it could report)
    pub gen_only: bool,
}

pub trait Scenario: Sync {
    fn name(&self) -> &'static str;
    fn property(&self) -> &'static str;
    /// Called once in the main process before any fork (build engines ...).
    fn setup(&self) {}
    /// Execute one run inside a freshly forked child. Must end by returning
    /// (success) or through `report::violation`.
    fn child(&self, spec: &Spec);
    fn timeout_ms(&self) -> u64 {
        30_000
    }
    /// A run that does not end in real time: violation signature, or None if
    /// that is a harness problem for this scenario.
    fn hang_signature(&self) -> Option<String> {
        None
    }
    /// A run that crashed or hung reports nothing itself; once its workload has
    /// been recovered the scenario may make the signature more specific.
    fn refine_signature(&self, _signature: &str, _workload: &Value) -> Option<String> {
        None
    }
    fn crash_signature(&self, sig: i32) -> String {
        format!("{}/crash/signal-{}", self.property(), sig)
    }
    /// Smaller variants of a failing workload (each a complete `overrides`).
    fn shrink(&self, _workload: &Value) -> Vec<Value> {
        Vec::new()
    }
    fn rule(&self) -> String;
    fn assumptions(&self) -> Vec<String>;
    fn components(&self) -> Value;
    fn default_runs(&self, thorough: bool) -> u64;
}

#[derive(Clone, Debug)]
pub struct RunResult {
    pub outcome: String, // ok | violation | harness_error | crash | hang | replay_diverged
    pub signature: String,
    pub detail: String,
    pub raw: Value,
    pub index: u64,
    pub seed: u64,
    pub wall_us: u64,
}

/// Pin the calling process to one CPU. Children inherit it; steel sizes its
/// marker pool from the available parallelism, so every run sees the same pool
/// (2 threads) whatever the worker count.
pub fn pin_to_cpu(cpu: usize) {
    unsafe {
        let mut set: libc::cpu_set_t = std::mem::zeroed();
        libc::CPU_ZERO(&mut set);
        let n = libc::sysconf(libc::_SC_NPROCESSORS_ONLN).max(1) as usize;
        libc::CPU_SET(cpu % n, &mut set);
        libc::sched_setaffinity(0, std::mem::size_of::<libc::cpu_set_t>(), &set);
    }
}

fn set_cloexec(fd: i32) {
    unsafe {
        let fl = libc::fcntl(fd, libc::F_GETFD);
        libc::fcntl(fd, libc::F_SETFD, fl | libc::FD_CLOEXEC);
    }
}

/// Fork a child, run `scn.child(spec)` in it, and collect its report.
pub fn run_one(scn: &dyn Scenario, spec: &Spec) -> RunResult {
    let mut r = run_one_raw(scn, spec);
    if r.raw.is_null() && !spec.gen_only && spec.overrides.is_null() {
        // crashed or hung before reporting: recover the generated workload
        let mut g = spec.clone();
        g.gen_only = true;
        let w = run_one_raw(scn, &g);
        if !w.raw["workload"].is_null() {
            r.raw = serde_json::json!({"workload": w.raw["workload"], "recovered": true});
        }
    } else if r.raw.is_null() && !spec.overrides.is_null() {
        r.raw = serde_json::json!({"workload": spec.overrides, "recovered": true});
    }
    if r.outcome == "violation" && r.raw["recovered"] == true {
        if let Some(s) = scn.refine_signature(&r.signature, &r.raw["workload"]) {
            r.signature = s;
        }
    }
    r
}

/// Upper bound for the real-time limit of a run (milliseconds); lowered while
/// minimising, where hundreds of candidates are tried.
pub static TIMEOUT_CAP_MS: std::sync::atomic::AtomicU64 = std::sync::atomic::AtomicU64::new(u64::MAX);

fn run_one_raw(scn: &dyn Scenario, spec: &Spec) -> RunResult {
    let start = Instant::now();
    let mut fds = [0i32; 2];
    unsafe {
        if libc::pipe(fds.as_mut_ptr()) != 0 {
            panic!("pipe failed");
        }
    }
    set_cloexec(fds[0]);
    set_cloexec(fds[1]);
    let _ = std::io::stdout().flush();
    let pid = unsafe { libc::fork() };
    if pid < 0 {
        panic!("fork failed");
    }
    if pid == 0 {
        // child
        if std::env::var_os("VERIF_WORKER_PINNED").is_none() {
            // not under a pinned worker (replay, one, minimise): pin here
            let mut set: libc::cpu_set_t = unsafe { std::mem::zeroed() };
            let pinned = unsafe {
                libc::sched_getaffinity(0, std::mem::size_of::<libc::cpu_set_t>(), &mut set) == 0
                    && libc::CPU_COUNT(&set) == 1
            };
            if !pinned {
                pin_to_cpu((spec.index % 16) as usize);
            }
        }
        unsafe {
            libc::close(fds[0]);
            // own process group not needed; die with parent
            libc::prctl(libc::PR_SET_PDEATHSIG, libc::SIGKILL);
            if std::env::var_os("VERIF_CHILD_STDERR").is_none() {
                let devnull = libc::open(b"/dev/null\0".as_ptr() as *const libc::c_char, libc::O_WRONLY);
                if devnull >= 0 {
                    libc::dup2(devnull, 2);
                    libc::dup2(devnull, 1);
                }
            }
        }
        report::REPORT_FD.store(fds[1], std::sync::atomic::Ordering::SeqCst);
        scn.child(spec);
        report::finish_ok();
    }
    unsafe { libc::close(fds[1]) };
    // read with timeout
    let deadline_ms = scn.timeout_ms().min(TIMEOUT_CAP_MS.load(std::sync::atomic::Ordering::Relaxed)) as i64;
    let mut buf: Vec<u8> = Vec::new();
    let mut hang = false;
    loop {
        let elapsed = start.elapsed().as_millis() as i64;
        let left = deadline_ms - elapsed;
        if left <= 0 {
            hang = true;
            break;
        }
        let mut pfd = libc::pollfd {
            fd: fds[0],
            events: libc::POLLIN,
            revents: 0,
        };
        let r = unsafe { libc::poll(&mut pfd, 1, left.min(1000) as i32) };
        if r < 0 {
            continue;
        }
        if r == 0 {
            continue;
        }
        let mut tmp = [0u8; 65536];
        let n = unsafe { libc::read(fds[0], tmp.as_mut_ptr() as *mut libc::c_void, tmp.len()) };
        if n > 0 {
            buf.extend_from_slice(&tmp[..n as usize]);
        } else if n == 0 {
            break;
        } else {
            let e = std::io::Error::last_os_error();
            if e.kind() != std::io::ErrorKind::Interrupted {
                break;
            }
        }
    }
    unsafe { libc::close(fds[0]) };
    let mut status: i32 = 0;
    if hang {
        unsafe {
            libc::kill(pid, libc::SIGKILL);
        }
    }
    unsafe {
        libc::waitpid(pid, &mut status, 0);
    }
    let wall_us = start.elapsed().as_micros() as u64;
    let mk = |outcome: &str, signature: String, detail: String, raw: Value| RunResult {
        outcome: outcome.to_string(),
        signature,
        detail,
        raw,
        index: spec.index,
        seed: spec.seed,
        wall_us,
    };
    if hang {
        return match scn.hang_signature() {
            Some(sig) => mk("violation", sig, "run did not end in real time".into(), Value::Null),
            None => mk("hang", "harness/hang".into(), "run did not end in real time".into(), Value::Null),
        };
    }
    if let Ok(v) = serde_json::from_slice::<Value>(&buf) {
        let outcome = v["outcome"].as_str().unwrap_or("harness_error").to_string();
        let signature = v["signature"].as_str().unwrap_or("").to_string();
        let detail = v["detail"].as_str().unwrap_or("").to_string();
        return mk(&outcome, signature, detail, v);
    }
    if libc::WIFSIGNALED(status) {
        let sig = libc::WTERMSIG(status);
        return mk(
            "violation",
            scn.crash_signature(sig),
            format!("child killed by signal {}", sig),
            Value::Null,
        );
    }
    let code = if libc::WIFEXITED(status) { libc::WEXITSTATUS(status) } else { -1 };
    // exit without a report: abort()/exit() inside the code under test
    mk(
        "violation",
        format!("{}/crash/exit-{}", scn.property(), code),
        format!("child exited with status {} without a report ({} bytes)", code, buf.len()),
        Value::Null,
    )
}

#[derive(Default)]
pub struct Aggregate {
    pub runs: u64,
    pub ok: u64,
    pub nontrivial: u64,
    pub steps: u64,
    pub switches: u64,
    pub polls: u64,
    pub wall_us: u64,
    pub trace_fps: BTreeSet<String>,
    pub sched_fps: BTreeSet<String>,
    pub nontrivial_fps: BTreeSet<String>,
    pub faults: BTreeMap<String, u64>,
    pub probes: BTreeMap<String, u64>,
    pub strategies: BTreeMap<String, u64>,
    pub samples: Vec<Value>,
    pub violations: BTreeMap<String, Vec<Value>>, // signature -> reports (capped)
    pub violation_counts: BTreeMap<String, u64>,
    pub harness_errors: Vec<String>,
    pub harness_error_count: u64,
    pub max_live: u64,
}

impl Aggregate {
    fn add(&mut self, r: &RunResult) {
        self.runs += 1;
        self.wall_us += r.wall_us;
        let v = &r.raw;
        if let Some(s) = v["steps"].as_u64() {
            self.steps += s;
        }
        if let Some(s) = v["switches"].as_u64() {
            self.switches += s;
        }
        if let Some(s) = v["polls"].as_u64() {
            self.polls += s;
        }
        if let Some(s) = v["max_live"].as_u64() {
            self.max_live = self.max_live.max(s);
        }
        let tfp = v["trace_fp"].as_str().unwrap_or("");
        if !tfp.is_empty() {
            self.trace_fps.insert(tfp.to_string());
        }
        if let Some(s) = v["sched_fp"].as_str() {
            self.sched_fps.insert(s.to_string());
        }
        if v["nontrivial"].as_bool().unwrap_or(false) {
            self.nontrivial += 1;
            // distinct = distinct (workload, event trace) fingerprint
            let wl = crate::rng::mix(
                fxhash(v["workload"].to_string().as_bytes()),
                fxhash(tfp.as_bytes()),
            );
            self.nontrivial_fps.insert(format!("{:016x}", wl));
        }
        for (k, n) in v["faults"].as_object().into_iter().flatten() {
            *self.faults.entry(k.clone()).or_insert(0) += n.as_u64().unwrap_or(0);
        }
        for (k, n) in v["probes"].as_object().into_iter().flatten() {
            *self.probes.entry(k.clone()).or_insert(0) += n.as_u64().unwrap_or(0);
        }
        if let Some(s) = v["strategy"].as_str() {
            if !s.is_empty() {
                let key = s.split('(').next().unwrap_or(s).to_string();
                *self.strategies.entry(key).or_insert(0) += 1;
            }
        }
        match r.outcome.as_str() {
            "ok" => {
                self.ok += 1;
                if self.samples.len() < 2 && v["nontrivial"].as_bool().unwrap_or(false) {
                    self.samples.push(json!({
                        "seed": r.seed, "run": r.index,
                        "strategy": v["strategy"], "steps": v["steps"], "switches": v["switches"],
                        "workload": v["workload"], "faults": v["faults"], "extra": v["extra"],
                    }));
                }
            }
            "violation" => {
                *self.violation_counts.entry(r.signature.clone()).or_insert(0) += 1;
                let e = self.violations.entry(r.signature.clone()).or_default();
                if e.len() < 3 {
                    let mut o = Map::new();
                    o.insert("seed".into(), json!(r.seed));
                    o.insert("run".into(), json!(r.index));
                    o.insert("signature".into(), json!(r.signature));
                    o.insert("detail".into(), json!(r.detail));
                    o.insert("report".into(), r.raw.clone());
                    e.push(Value::Object(o));
                }
            }
            _ => {
                self.harness_error_count += 1;
                if self.harness_errors.len() < 5 {
                    self.harness_errors.push(format!(
                        "run {} seed {}: {} {} {}",
                        r.index, r.seed, r.outcome, r.signature, r.detail
                    ));
                }
            }
        }
    }

    fn to_json(&self) -> Value {
        json!({
            "runs": self.runs, "ok": self.ok, "nontrivial": self.nontrivial,
            "steps": self.steps, "switches": self.switches, "polls": self.polls, "wall_us": self.wall_us,
            "trace_fps": self.trace_fps, "sched_fps": self.sched_fps, "nontrivial_fps": self.nontrivial_fps,
            "faults": self.faults, "probes": self.probes, "strategies": self.strategies,
            "samples": self.samples, "violations": self.violations,
            "violation_counts": self.violation_counts,
            "harness_errors": self.harness_errors, "harness_error_count": self.harness_error_count,
            "max_live": self.max_live,
        })
    }

    pub fn merge_from(&mut self, other: Aggregate) {
        let v = other.to_json();
        self.merge_json(&v);
    }

    fn merge_json(&mut self, v: &Value) {
        let u = |k: &str| v[k].as_u64().unwrap_or(0);
        self.runs += u("runs");
        self.ok += u("ok");
        self.nontrivial += u("nontrivial");
        self.steps += u("steps");
        self.switches += u("switches");
        self.polls += u("polls");
        self.wall_us += u("wall_us");
        self.harness_error_count += u("harness_error_count");
        self.max_live = self.max_live.max(u("max_live"));
        for (k, set) in [
            ("trace_fps", &mut self.trace_fps),
            ("sched_fps", &mut self.sched_fps),
            ("nontrivial_fps", &mut self.nontrivial_fps),
        ] {
            for s in v[k].as_array().into_iter().flatten() {
                if let Some(s) = s.as_str() {
                    set.insert(s.to_string());
                }
            }
        }
        for (k, map) in [
            ("faults", &mut self.faults),
            ("probes", &mut self.probes),
            ("strategies", &mut self.strategies),
            ("violation_counts", &mut self.violation_counts),
        ] {
            for (name, n) in v[k].as_object().into_iter().flatten() {
                *map.entry(name.clone()).or_insert(0) += n.as_u64().unwrap_or(0);
            }
        }
        for s in v["samples"].as_array().into_iter().flatten() {
            if self.samples.len() < 3 {
                self.samples.push(s.clone());
            }
        }
        for (sig, list) in v["violations"].as_object().into_iter().flatten() {
            let e = self.violations.entry(sig.clone()).or_default();
            for x in list.as_array().into_iter().flatten() {
                if e.len() < 3 {
                    e.push(x.clone());
                }
            }
        }
        for s in v["harness_errors"].as_array().into_iter().flatten() {
            if self.harness_errors.len() < 8 {
                self.harness_errors.push(s.as_str().unwrap_or("").to_string());
            }
        }
    }
}

pub fn fxhash(b: &[u8]) -> u64 {
    let mut h = crate::rng::Fp::new();
    for c in b.chunks(8) {
        let mut x = [0u8; 8];
        x[..c.len()].copy_from_slice(c);
        h.add(u64::from_le_bytes(x));
    }
    h.0
}

/// Run `runs` runs on `workers` worker processes (each forks one child per
/// run). Run indices are assigned round-robin so the result does not depend on
/// the worker count.
pub fn run_batch(
    scn: &dyn Scenario,
    seed: u64,
    first: u64,
    runs: u64,
    workers: usize,
    thorough: bool,
    budget_s: f64,
) -> Aggregate {
    let start = Instant::now();
    let mut pipes: Vec<(i32, i32)> = Vec::new();
    let _ = std::io::stdout().flush();
    for w in 0..workers {
        let mut fds = [0i32; 2];
        unsafe {
            if libc::pipe(fds.as_mut_ptr()) != 0 {
                panic!("pipe failed");
            }
        }
        let pid = unsafe { libc::fork() };
        if pid < 0 {
            panic!("fork failed");
        }
        if pid == 0 {
            unsafe {
                libc::close(fds[0]);
                libc::prctl(libc::PR_SET_PDEATHSIG, libc::SIGKILL);
            }
            for (r, _) in &pipes {
                unsafe { libc::close(*r) };
            }
            pin_to_cpu(w);
            let mut agg = Aggregate::default();
            let mut idx = first + w as u64;
            while idx < first + runs {
                if start.elapsed().as_secs_f64() > budget_s {
                    break;
                }
                let spec = Spec {
                    seed,
                    index: idx,
                    overrides: Value::Null,
                    replay: None,
                    strict: false,
                    full_trace: false,
                    tier_thorough: thorough,
                    gen_only: false,
                };
                let r = run_one(scn, &spec);
                agg.add(&r);
                idx += workers as u64;
            }
            let bytes = serde_json::to_vec(&agg.to_json()).unwrap();
            let mut off = 0;
            while off < bytes.len() {
                let n = unsafe {
                    libc::write(
                        fds[1],
                        bytes[off..].as_ptr() as *const libc::c_void,
                        bytes.len() - off,
                    )
                };
                if n <= 0 {
                    break;
                }
                off += n as usize;
            }
            unsafe { libc::_exit(0) };
        }
        unsafe { libc::close(fds[1]) };
        pipes.push((fds[0], pid));
    }
    let mut total = Aggregate::default();
    for (fd, pid) in pipes {
        let mut buf = Vec::new();
        let mut tmp = vec![0u8; 1 << 16];
        loop {
            let n = unsafe { libc::read(fd, tmp.as_mut_ptr() as *mut libc::c_void, tmp.len()) };
            if n > 0 {
                buf.extend_from_slice(&tmp[..n as usize]);
            } else if n == 0 {
                break;
            } else if std::io::Error::last_os_error().kind() != std::io::ErrorKind::Interrupted {
                break;
            }
        }
        unsafe {
            libc::close(fd);
            let mut st = 0;
            libc::waitpid(pid, &mut st, 0);
        }
        match serde_json::from_slice::<Value>(&buf) {
            Ok(v) => total.merge_json(&v),
            Err(e) => {
                total.harness_error_count += 1;
                total
                    .harness_errors
                    .push(format!("worker produced no aggregate: {}", e));
            }
        }
    }
    total
}

// ---------------------------------------------------------------------------
// known findings

/// `*` matches any run of characters; everything else is literal.
pub fn glob(pat: &str, s: &str) -> bool {
    let parts: Vec<&str> = pat.split('*').collect();
    if parts.len() == 1 {
        return pat == s;
    }
    let mut pos = 0usize;
    for (i, p) in parts.iter().enumerate() {
        if i == 0 {
            if !s.starts_with(p) {
                return false;
            }
            pos = p.len();
        } else if i == parts.len() - 1 {
            return s.len() >= pos + p.len() && s[pos..].ends_with(p);
        } else {
            match s[pos..].find(p) {
                Some(k) => pos += k + p.len(),
                None => return false,
            }
        }
    }
    true
}

pub struct Known {
    pub known: Vec<(String, String, String)>, // property, signature, what
}

pub fn load_known() -> Known {
    let path = std::env::var("VERIF_KNOWN").unwrap_or_else(|_| "/verif/known_findings.json".into());
    let mut known = Vec::new();
    if let Ok(s) = std::fs::read_to_string(&path) {
        if let Ok(v) = serde_json::from_str::<Value>(&s) {
            for k in v["known"].as_array().into_iter().flatten() {
                known.push((
                    k["property"].as_str().unwrap_or("").to_string(),
                    k["signature"].as_str().unwrap_or("").to_string(),
                    k["what"].as_str().unwrap_or("").to_string(),
                ));
            }
        }
    }
    Known { known }
}

impl Known {
    pub fn find(&self, property: &str, signature: &str) -> Option<&(String, String, String)> {
        self.known
            .iter()
            .find(|k| k.0 == property && glob(&k.1, signature))
    }
}

// ---------------------------------------------------------------------------
// minimisation and replay files

fn spec_from_report(seed: u64, index: u64, rep: &Value, thorough: bool) -> Spec {
    Spec {
        seed,
        index,
        overrides: rep["workload"].clone(),
        replay: if rep["decisions"].is_null() { None } else { Some(report::unrle(&rep["decisions"])) },
        strict: false,
        full_trace: false,
        tier_thorough: thorough,
        gen_only: false,
    }
}

/// Delta-debug a failing run: fewer workload steps first, then fewer context
/// switches; a candidate is kept only if it fails with the same signature.
pub fn minimise(scn: &dyn Scenario, first: &Value, thorough: bool, effort: usize) -> (Spec, RunResult) {
    let t0 = Instant::now();
    let wall_budget_s = if thorough { 240.0 } else { 60.0 };
    TIMEOUT_CAP_MS.store(8_000, std::sync::atomic::Ordering::Relaxed);
    let r = minimise_inner(scn, first, thorough, effort, t0, wall_budget_s);
    TIMEOUT_CAP_MS.store(u64::MAX, std::sync::atomic::Ordering::Relaxed);
    r
}

fn minimise_inner(scn: &dyn Scenario, first: &Value, thorough: bool, effort: usize, t0: Instant, wall_budget_s: f64) -> (Spec, RunResult) {
    let seed = first["seed"].as_u64().unwrap_or(0);
    let index = first["run"].as_u64().unwrap_or(0);
    let sig = first["signature"].as_str().unwrap_or("").to_string();
    let mut best = spec_from_report(seed, index, &first["report"], thorough);
    let mut best_res = run_one(scn, &best);
    if best_res.outcome != "violation" || best_res.signature != sig {
        // replay with the explicit workload does not reproduce: fall back to
        // the plain (seed, index) run, which is what failed.
        best = Spec {
            seed,
            index,
            overrides: Value::Null,
            replay: None,
            strict: false,
            full_trace: false,
            tier_thorough: thorough,
            gen_only: false,
        };
        best_res = run_one(scn, &best);
        return (best, best_res);
    }
    let mut tries = 0usize;
    // 1. workload
    let mut changed = true;
    while changed && tries < effort && t0.elapsed().as_secs_f64() < wall_budget_s {
        changed = false;
        let cands = scn.shrink(&best.overrides);
        for c in cands {
            if tries >= effort || t0.elapsed().as_secs_f64() > wall_budget_s {
                break;
            }
            // forced schedule first, then a few fresh schedules
            let mut variants: Vec<Spec> = Vec::new();
            let mut s = best.clone();
            s.overrides = c.clone();
            variants.push(s.clone());
            for k in 0..4u64 {
                let mut s2 = s.clone();
                s2.replay = None;
                s2.index = index.wrapping_add(1 + k).wrapping_mul(0x9E37) ^ k;
                variants.push(s2);
            }
            for v in variants {
                tries += 1;
                let r = run_one(scn, &v);
                if r.outcome == "violation" && r.signature == sig {
                    let mut nb = v.clone();
                    nb.replay = Some(report::unrle(&r.raw["decisions"]));
                    nb.overrides = if r.raw["workload"].is_null() { v.overrides.clone() } else { r.raw["workload"].clone() };
                    best = nb;
                    best_res = r;
                    changed = true;
                    break;
                }
            }
            if changed {
                break;
            }
        }
    }
    // 2. schedule: remove context switches (replace a switch by "stay")
    if let Some(dec) = best.replay.clone() {
        let mut dec = dec;
        let mut i = 1;
        let mut budget = effort;
        while i < dec.len() && budget > 0 && t0.elapsed().as_secs_f64() < wall_budget_s * 1.5 {
            if dec[i] != dec[i - 1] {
                // try to extend the previous thread's run over this block
                let mut cand = dec.clone();
                let old = cand[i];
                let mut j = i;
                while j < cand.len() && cand[j] == old {
                    cand[j] = dec[i - 1];
                    j += 1;
                }
                let mut s = best.clone();
                s.replay = Some(cand);
                budget -= 1;
                let r = run_one(scn, &s);
                if r.outcome == "violation" && r.signature == sig {
                    dec = report::unrle(&r.raw["decisions"]);
                    best.replay = Some(dec.clone());
                    best_res = r;
                    continue; // re-examine position i
                }
            }
            i += 1;
        }
    }
    (best, best_res)
}

pub fn write_replay(scn: &dyn Scenario, spec: &Spec, res: &RunResult) -> String {
    let dir = std::env::var("VERIF_REPLAYS").unwrap_or_else(|_| "/verif/replays".into());
    let _ = std::fs::create_dir_all(&dir);
    let path = format!(
        "{}/{}-{}-{}-{:08x}.json",
        dir,
        scn.property(),
        scn.name(),
        spec.seed,
        (fxhash(res.signature.as_bytes()) ^ spec.index) as u32
    );
    let v = json!({
        "property": scn.property(),
        "scenario": scn.name(),
        "seed": spec.seed,
        "run": spec.index,
        "thorough": spec.tier_thorough,
        "workload": spec.overrides,
        "decisions": spec.replay.as_ref().map(|d| report::rle(d)),
        "signature": res.signature,
        "detail": res.detail,
        "strategy": res.raw["strategy"],
        "faults": res.raw["faults"],
        "steps": res.raw["steps"],
        "switches": res.raw["switches"],
        "event_tail": res.raw["tail"],
        "thread_states": res.raw["thread_states"],
    });
    std::fs::write(&path, serde_json::to_vec_pretty(&v).unwrap()).expect("write replay");
    path
}

pub fn spec_from_replay_file(path: &str) -> (String, Spec, String) {
    let s = std::fs::read_to_string(path).expect("read replay file");
    let v: Value = serde_json::from_str(&s).expect("parse replay file");
    let spec = Spec {
        seed: v["seed"].as_u64().unwrap_or(0),
        index: v["run"].as_u64().unwrap_or(0),
        overrides: v["workload"].clone(),
        replay: if v["decisions"].is_null() { None } else { Some(report::unrle(&v["decisions"])) },
        strict: true,
        full_trace: false,
        tier_thorough: v["thorough"].as_bool().unwrap_or(false),
        gen_only: false,
    };
    (
        v["scenario"].as_str().unwrap_or("").to_string(),
        spec,
        v["signature"].as_str().unwrap_or("").to_string(),
    )
}
