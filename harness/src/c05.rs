//! C05 — shared-value reference counting is sound under every interleaving.
//!
//! Real code: the whole of steel-rc. Simulated: the scheduler (a decision
//! before every count-word access), the channel that moves handles between
//! threads, thread lifetime. Oracle: a handle-count model.

use crate::report;
use crate::rng::Rng;
use crate::runner::{Scenario, Spec};
use crate::sched;
use crate::sites;
use serde_json::{json, Value};
use std::collections::{BTreeMap, BTreeSet, VecDeque};
use std::sync::atomic::{AtomicU64, Ordering};
use std::sync::Mutex;
use steel_rc::BiasedRc;

const MAGIC: u64 = 0x5EE1_C0DE_0000_0000;
const DEAD: u64 = 0xDEAD_DEAD_DEAD_DEAD;

pub struct Payload {
    id: u32,
    magic: u64,
    stamp: AtomicU64,
    /// a handle to another object held by this one: destroying this object
    /// drops it, wherever the destruction happens (also inside a merge)
    child: Mutex<Option<H>>,
    /// the child slot is in use by a simulated thread (which may be parked at a
    /// scheduling point while it clones the child); others wait for it under
    /// the scheduler instead of blocking on the real mutex
    child_busy: std::sync::atomic::AtomicBool,
}

impl Payload {
    fn with_child<R>(&self, f: impl FnOnce(&mut Option<H>) -> R) -> R {
        sched::wait_until(sites::H_INBOX, &mut || !self.child_busy.load(Ordering::SeqCst));
        self.child_busy.store(true, Ordering::SeqCst);
        let r = f(&mut self.child.lock().unwrap());
        self.child_busy.store(false, Ordering::SeqCst);
        r
    }
}

impl Drop for Payload {
    fn drop(&mut self) {
        let id = self.id;
        let ok = self.magic == MAGIC | id as u64;
        self.magic = DEAD;
        model(|m| m.payload_dropped(id, ok));
        let child = match self.child.get_mut() {
            Ok(c) => c.take(),
            Err(p) => p.into_inner().take(),
        };
        model(|m| {
            m.nested.remove(&id);
        });
        if let Some(c) = child {
            let cid = c.id;
            report::probe("nested-handle-dropped-by-destructor");
            model(|m| m.change(cid, -1));
            drop(c);
            let (n, t) = (now(), me());
            model(|m| {
                m.objs[cid as usize].last_drop_end_step = n;
                m.objs[cid as usize].last_dropper = t;
            });
        }
    }
}

impl Clone for Payload {
    fn clone(&self) -> Payload {
        // only reached through make_mut on a shared value
        let stamp = self.stamp.load(Ordering::Relaxed);
        let new_id = model(|m| m.cloned_for_make_mut(self.id, stamp));
        let child = self.with_child(|slot| {
            slot.as_ref().map(|c| {
                let cid = c.id;
                model(|m| {
                    m.change(cid, 1);
                    m.nested.insert(new_id, cid);
                });
                c.clone()
            })
        });
        Payload {
            id: new_id,
            magic: MAGIC | new_id as u64,
            stamp: AtomicU64::new(stamp),
            child: Mutex::new(child),
            child_busy: std::sync::atomic::AtomicBool::new(false),
        }
    }
}

type H = BiasedRc<Payload>;

#[derive(Default, Clone)]
struct Obj {
    count: i64,
    dropped: u32,
    creator: usize,
    stamp: u64,
    addr: usize,
    last_drop_end_step: u64,
    last_dropper: usize,
    unwrapped: bool,
}

#[derive(Default)]
struct Model {
    objs: Vec<Obj>,
    watches: BTreeMap<usize, (u32, i64)>, // tid -> (obj, min count seen)
    exit_step: BTreeMap<usize, u64>,      // tid -> step at which it began its exit protocol (exit merge)
    quarantine: BTreeSet<usize>,
    touched: BTreeMap<usize, BTreeSet<usize>>, // addr -> tids
    next_stamp: u64,
    nested: BTreeMap<u32, u32>, // object -> the object whose handle its payload holds
}

static MODEL: Mutex<Option<Model>> = Mutex::new(None);

fn model<R>(f: impl FnOnce(&mut Model) -> R) -> R {
    let mut g = match MODEL.lock() {
        Ok(g) => g,
        Err(p) => p.into_inner(),
    };
    f(g.as_mut().expect("model not initialised"))
}

fn me() -> usize {
    sched::current().unwrap_or(99)
}

fn now() -> u64 {
    sched::with_inner(|i| i.steps).unwrap_or(0)
}

impl Model {
    fn reaches(&self, from: u32, to: u32) -> bool {
        let mut cur = from;
        for _ in 0..64 {
            if cur == to {
                return true;
            }
            match self.nested.get(&cur) {
                Some(&n) => cur = n,
                None => return false,
            }
        }
        true
    }

    fn change(&mut self, obj: u32, delta: i64) {
        let o = &mut self.objs[obj as usize];
        o.count += delta;
        let c = o.count;
        for (_, w) in self.watches.iter_mut() {
            if w.0 == obj && c < w.1 {
                w.1 = c;
            }
        }
    }

    fn new_obj(&mut self, creator: usize, stamp: u64) -> u32 {
        self.objs.push(Obj {
            count: 1,
            creator,
            stamp,
            ..Default::default()
        });
        (self.objs.len() - 1) as u32
    }

    fn cloned_for_make_mut(&mut self, old: u32, stamp: u64) -> u32 {
        // the handle make_mut was called on is about to be dropped
        self.change(old, -1);
        report::probe("make_mut.cloned");
        self.new_obj(me(), stamp)
    }

    fn payload_dropped(&mut self, id: u32, magic_ok: bool) {
        let o = &mut self.objs[id as usize];
        o.dropped += 1;
        let (dropped, count) = (o.dropped, o.count);
        if !magic_ok {
            drop_violation("C05/double-destroy", format!("object {} destroyed with a corrupt or already-dead payload", id));
        }
        if dropped > 1 {
            drop_violation("C05/double-destroy", format!("object {} destroyed {} times", id, dropped));
        }
        if count != 0 {
            drop_violation(
                "C05/destroyed-while-referenced",
                format!("object {} destroyed while {} handle(s) exist (thread t{})", id, count, me()),
            );
        }
    }
}

fn drop_violation(sig: &str, detail: String) -> ! {
    // called with MODEL locked; report never returns
    report::violation(sig, detail)
}

// ---------------------------------------------------------------------------
// The global queue is a dashmap; `run_explicit_merge` walks a thread's queue
// while holding a shard lock and reaches scheduling points while doing so. No
// other simulated thread may touch the map meanwhile (it would block on a real
// lock while holding the token), so map operations wait for a running merge.

static MERGING: std::sync::atomic::AtomicBool = std::sync::atomic::AtomicBool::new(false);
static MERGE_OWNER: std::sync::atomic::AtomicUsize = std::sync::atomic::AtomicUsize::new(usize::MAX);

fn wait_no_merge() {
    if MERGE_OWNER.load(Ordering::SeqCst) == me() {
        // a destructor run by this thread's own merge came back to the queue
        return;
    }
    sched::wait_until(sites::H_INBOX, &mut || !MERGING.load(Ordering::SeqCst));
}

fn locked_merge() -> usize {
    wait_no_merge();
    MERGING.store(true, Ordering::SeqCst);
    MERGE_OWNER.store(me(), Ordering::SeqCst);
    let n = steel_rc::QueueHandle::run_explicit_merge();
    MERGE_OWNER.store(usize::MAX, Ordering::SeqCst);
    MERGING.store(false, Ordering::SeqCst);
    n
}

// ---------------------------------------------------------------------------
// hooks

fn hook_access(site: u32, addr: usize) {
    if !sched::is_sim_thread() {
        return;
    }
    let t = me();
    let bad = model(|m| {
        m.touched.entry(addr).or_default().insert(t);
        m.quarantine.contains(&addr)
    });
    if bad {
        report::violation(
            &format!("C05/use-after-destroy/{}", steel_rc::verif::site::name(site)),
            format!("t{} touched the count word of destroyed box {:#x} at {}", t, addr, sites::name(site)),
        );
    }
    use steel_rc::verif::site as s;
    if site == s::DEREF || site == s::DROP_CONTENTS {
        return;
    }
    if site == s::ENQUEUE_TID {
        // about to touch the queue map
        wait_no_merge();
    }
    if site == s::FAST_DEC_UNBIAS || site == s::XMERGE_UNBIAS || site == s::MERGE_UNBIAS {
        report::probe("unbias-store-reached");
    }
    sched::yield_point_ex(site, 0, true);
    // the access itself happens now, after other threads may have run: the
    // box must still exist (checking only before the yield missed an owner
    // that stores into a box another thread freed in the meantime)
    if model(|m| m.quarantine.contains(&addr)) {
        report::violation(
            &format!("C05/use-after-destroy/{}", steel_rc::verif::site::name(site)),
            format!(
                "t{} touched the count word of box {:#x} at {} after another thread had destroyed it (the box was alive when the operation reached this access)",
                t, addr, sites::name(site)
            ),
        );
    }
    if site == s::ENQUEUE_TID {
        wait_no_merge();
        // every other thread is outside the map now: a lock that is taken is
        // held by this very thread (its merge is running a destructor)
        if steel_rc::verif::enqueue_would_block(addr) {
            report::violation(
                "C05/merge-blocked-forever/enqueue-inside-explicit-merge",
                format!(
                    "t{}: a destructor run by run_explicit_merge dropped a reference owned by another thread; enqueue needs the queue-map lock that the merge itself is holding: the thread blocks forever and what it had queued is never destroyed",
                    t
                ),
            );
        }
    }
}

fn hook_dealloc(addr: usize) -> bool {
    if !sched::is_sim_thread() {
        return false;
    }
    model(|m| {
        m.quarantine.insert(addr);
    });
    true
}

fn hook_prepare() {
    sched::spawn_prepare();
}
fn hook_begin() {
    sched::thread_begin();
    // with_explicit_merge registers the thread (a map operation) right away
    wait_no_merge();
}
fn hook_end() {
    sched::thread_end(true);
}

static HOOKS: steel_rc::verif::Hooks = steel_rc::verif::Hooks {
    access: hook_access,
    dealloc: hook_dealloc,
    thread_prepare: hook_prepare,
    thread_begin: hook_begin,
    thread_end: hook_end,
};

// ---------------------------------------------------------------------------
// workload

const OPS: &[&str] = &[
    "new", "clone", "drop", "send", "sendclone", "recv", "read", "getmut", "makemut", "unwrap",
    "count", "merge", "nest",
];

fn gen_workload(rng: &mut Rng) -> Value {
    let nthreads = rng.range(2, 3) as usize;
    let late = rng.chance(1, 3);
    let total = nthreads + late as usize;
    // swarm: per-run op weights
    let mut weights: Vec<u64> = OPS.iter().map(|_| rng.range(0, 4)).collect();
    weights[1] += 1; // clone
    weights[2] += 1; // drop
    weights[3] += 1; // send
    let wsum: u64 = weights.iter().sum();
    let max_objs = rng.range(1, 3);
    let mut threads = Vec::new();
    for t in 0..total {
        let n = rng.range(4, 12);
        let mut ops = Vec::new();
        if t == 0 || rng.chance(1, 2) {
            ops.push(json!(["new", 0, 0]));
        }
        for _ in 0..n {
            let mut x = rng.below(wsum);
            let mut k = 0;
            while x >= weights[k] {
                x -= weights[k];
                k += 1;
            }
            let a = rng.below(4);
            let b = rng.below(total as u64);
            ops.push(json!([OPS[k], a, b]));
        }
        let kind = if t == 0 {
            if rng.chance(1, 2) { "main-registered" } else { "main" }
        } else {
            *rng.pick(&["explicit", "explicit", "raw-registered", "raw"])
        };
        threads.push(json!({"kind": kind, "ops": ops}));
    }
    // when main spawns each other thread (index into main's op list)
    let main_len = threads[0]["ops"].as_array().unwrap().len() as u64;
    let mut spawn_at = Vec::new();
    for t in 1..total {
        if late && t == total - 1 {
            spawn_at.push(rng.range(main_len / 2, main_len));
        } else {
            spawn_at.push(rng.below(2));
        }
    }
    json!({"threads": threads, "spawn_at": spawn_at, "max_objs": max_objs})
}

struct Shared {
    inboxes: Vec<Mutex<VecDeque<H>>>,
    max_objs: usize,
}

fn new_obj(held: &mut Vec<H>) {
    let stamp = model(|m| {
        m.next_stamp += 1;
        m.next_stamp
    });
    let id = model(|m| m.new_obj(me(), stamp));
    let h = BiasedRc::new(Payload {
        id,
        magic: MAGIC | id as u64,
        stamp: AtomicU64::new(stamp),
        child: Mutex::new(None),
        child_busy: std::sync::atomic::AtomicBool::new(false),
    });
    let addr = steel_rc::verif::box_addr(&h);
    model(|m| m.objs[id as usize].addr = addr);
    held.push(h);
}

fn check_read(h: &H, what: &str) {
    let p: &Payload = &**h;
    let (id, magic, stamp) = (p.id, p.magic, p.stamp.load(Ordering::Relaxed));
    let ok_magic = magic == MAGIC | id as u64;
    let expect = model(|m| m.objs.get(id as usize).map(|o| o.stamp));
    if !ok_magic || expect != Some(stamp) {
        report::violation(
            "C05/corrupt-read",
            format!(
                "{}: t{} read object {}: magic {:#x} stamp {} (model stamp {:?})",
                what,
                me(),
                id,
                magic,
                stamp,
                expect
            ),
        );
    }
}

fn run_ops(t: usize, ops: &[Value], shared: &'static Shared, held: &mut Vec<H>, spawn: &mut dyn FnMut(usize)) {
    for (i, op) in ops.iter().enumerate() {
        spawn(i);
        let name = op[0].as_str().unwrap_or("");
        let a = op[1].as_u64().unwrap_or(0) as usize;
        let b = op[2].as_u64().unwrap_or(0) as usize;
        sched::yield_point_ex(sites::H_OP, 0, true);
        // handles sent to this thread arrive before its next operation
        loop {
            let got = shared.inboxes[t].lock().unwrap().pop_front();
            match got {
                Some(h) => held.push(h),
                None => break,
            }
        }
        let pick = |held: &Vec<H>| if held.is_empty() { None } else { Some(a % held.len()) };
        match name {
            "new" => {
                let n = model(|m| m.objs.len());
                if n < shared.max_objs {
                    new_obj(held);
                }
            }
            "clone" => {
                if let Some(k) = pick(held) {
                    let id = held[k].id;
                    model(|m| m.change(id, 1));
                    let c = held[k].clone();
                    held.push(c);
                }
            }
            "drop" => {
                if let Some(k) = pick(held) {
                    let h = held.swap_remove(k);
                    let id = h.id;
                    model(|m| m.change(id, -1));
                    drop(h);
                    let n = now();
                    model(|m| {
                        m.objs[id as usize].last_drop_end_step = n;
                        m.objs[id as usize].last_dropper = t;
                    });
                }
            }
            "send" | "sendclone" => {
                if let Some(k) = pick(held) {
                    let to = b % shared.inboxes.len();
                    let h = if name == "send" {
                        held.swap_remove(k)
                    } else {
                        let id = held[k].id;
                        model(|m| m.change(id, 1));
                        held[k].clone()
                    };
                    shared.inboxes[to].lock().unwrap().push_back(h);
                    report::probe("handle-moved");
                }
            }
            "recv" => {
                let got = shared.inboxes[t].lock().unwrap().pop_front();
                if let Some(h) = got {
                    held.push(h);
                }
            }
            "read" => {
                if let Some(k) = pick(held) {
                    check_read(&held[k], "read");
                }
            }
            "getmut" => {
                if let Some(k) = pick(held) {
                    let id = held[k].id;
                    let s = model(|m| {
                        let c = m.objs[id as usize].count;
                        m.watches.insert(t, (id, c));
                        m.next_stamp += 1;
                        m.next_stamp
                    });
                    let got = match BiasedRc::get_mut(&mut held[k]) {
                        Some(p) => {
                            p.stamp.store(s, Ordering::Relaxed);
                            true
                        }
                        None => false,
                    };
                    let min = model(|m| m.watches.remove(&t).unwrap().1);
                    if got {
                        report::probe("get_mut.some");
                        if min != 1 {
                            report::violation(
                                "C05/unique-access-while-shared/get_mut",
                                format!("t{} got exclusive access to object {} while at least {} handles existed", t, id, min),
                            );
                        }
                        model(|m| m.objs[id as usize].stamp = s);
                        check_read(&held[k], "after get_mut");
                    } else {
                        report::probe("get_mut.none");
                    }
                }
            }
            "makemut" => {
                if let Some(k) = pick(held) {
                    let id = held[k].id;
                    model(|m| {
                        let c = m.objs[id as usize].count;
                        m.watches.insert(t, (id, c));
                    });
                    let s = model(|m| {
                        m.next_stamp += 1;
                        m.next_stamp
                    });
                    {
                        let p = BiasedRc::make_mut(&mut held[k]);
                        p.stamp.store(s, Ordering::Relaxed);
                    }
                    let min = model(|m| m.watches.remove(&t).unwrap().1);
                    let new_id = held[k].id;
                    model(|m| m.objs[new_id as usize].stamp = s);
                    if new_id == id {
                        report::probe("make_mut.in-place");
                        if min != 1 {
                            report::violation(
                                "C05/unique-access-while-shared/make_mut",
                                format!("t{} updated object {} in place while at least {} handles existed", t, id, min),
                            );
                        }
                    } else {
                        let n = now();
                        model(|m| {
                            m.objs[id as usize].last_drop_end_step = n;
                            m.objs[id as usize].last_dropper = t;
                            let addr = steel_rc::verif::box_addr(&held[k]);
                            m.objs[new_id as usize].addr = addr;
                        });
                    }
                    check_read(&held[k], "after make_mut");
                }
            }
            "unwrap" => {
                if let Some(k) = pick(held) {
                    let h = held.swap_remove(k);
                    let id = h.id;
                    model(|m| {
                        let c = m.objs[id as usize].count;
                        m.watches.insert(t, (id, c));
                    });
                    let r = BiasedRc::try_unwrap(h);
                    let min = model(|m| m.watches.remove(&t).unwrap().1);
                    match r {
                        Ok(payload) => {
                            report::probe("try_unwrap.ok");
                            if min != 1 {
                                report::violation(
                                    "C05/unique-access-while-shared/try_unwrap",
                                    format!("t{} unwrapped object {} while at least {} handles existed", t, id, min),
                                );
                            }
                            model(|m| {
                                m.change(id, -1);
                                m.objs[id as usize].unwrapped = true;
                            });
                            drop(payload);
                            let n = now();
                            model(|m| {
                                m.objs[id as usize].last_drop_end_step = n;
                                m.objs[id as usize].last_dropper = t;
                            });
                        }
                        Err(h) => {
                            report::probe("try_unwrap.err");
                            held.push(h);
                        }
                    }
                }
            }
            "nest" => {
                // move one held handle into the payload of another object
                // (never closing a cycle: a cycle is a leak of the workload's own making)
                if held.len() >= 2 {
                    let j = a % held.len();
                    let c = held.swap_remove(j);
                    let start = b % held.len();
                    let k = (0..held.len())
                        .map(|i| (start + i) % held.len())
                        .find(|&i| {
                            let (pid, cid) = (held[i].id, c.id);
                            !model(|m| m.reaches(cid, pid)) && held[i].with_child(|s| s.is_none())
                        });
                    let mut c = Some(c);
                    if let Some(k) = k {
                        let (pid, cid) = (held[k].id, c.as_ref().unwrap().id);
                        held[k].with_child(|s| {
                            if s.is_none() {
                                *s = c.take();
                                model(|m| {
                                    m.nested.insert(pid, cid);
                                });
                            }
                        });
                    }
                    match c {
                        None => report::probe("handle-nested"),
                        Some(c) => held.push(c),
                    }
                }
            }
            "count" => {
                if let Some(k) = pick(held) {
                    let _ = BiasedRc::strong_count(&held[k]);
                }
            }
            "merge" => {
                let n = locked_merge();
                if n > 0 {
                    report::probe_n("explicit-merge.objects", n as u64);
                }
            }
            _ => {}
        }
    }
    spawn(ops.len());
}

fn drop_all(t: usize, held: &mut Vec<H>) {
    while let Some(h) = held.pop() {
        let id = h.id;
        model(|m| m.change(id, -1));
        drop(h);
        let n = now();
        model(|m| {
            m.objs[id as usize].last_drop_end_step = n;
            m.objs[id as usize].last_dropper = t;
        });
    }
}

pub struct C05;

fn panic_class(msg: &str) -> Option<String> {
    if msg.contains("hook called by a thread without the token") || msg.contains("model not initialised") {
        return None;
    }
    let short: String = msg.chars().take(60).filter(|c| !c.is_ascii_digit()).collect();
    Some(format!("C05/panic/{}", short.replace(' ', "-")))
}

impl Scenario for C05 {
    fn name(&self) -> &'static str {
        "c05-rc"
    }
    fn property(&self) -> &'static str {
        "C05"
    }
    fn default_runs(&self, thorough: bool) -> u64 {
        if thorough { 2_000_000 } else { 120_000 }
    }
    fn timeout_ms(&self) -> u64 {
        20_000
    }

    fn child(&self, spec: &Spec) {
        report::install_panic_hook(panic_class);
        let mut wrng = Rng::derive(spec.seed, spec.index, 1);
        let mut srng = Rng::derive(spec.seed, spec.index, 2);
        let workload = if spec.overrides.is_null() { gen_workload(&mut wrng) } else { spec.overrides.clone() };
        report::set_workload(workload.clone());
        if spec.gen_only {
            return;
        }
        // every count-word access is a candidate for the stall strategy: one
        // thread is held right before one access while the others run on
        let all_sites: Vec<u32> = (1..=32).collect();
        let strategy = sched::Strategy::swarm_with_stall(&mut srng, 200, &all_sites);
        report::set_strategy(strategy.describe());
        *MODEL.lock().unwrap() = Some(Model::default());
        let threads = workload["threads"].as_array().cloned().unwrap_or_default();
        let total = threads.len();
        let shared: &'static Shared = Box::leak(Box::new(Shared {
            inboxes: (0..total).map(|_| Mutex::new(VecDeque::new())).collect(),
            max_objs: workload["max_objs"].as_u64().unwrap_or(1) as usize,
        }));
        sched::init(sched::Config {
            seed: srng.next_u64(),
            strategy,
            max_steps: 200_000,
            hot: |_| false,
            replay: spec.replay.clone(),
            replay_strict: spec.strict,
            full_trace: spec.full_trace,
            on_stop: report::stop_is_harness_error,
        });
        steel_rc::verif::install(&HOOKS);

        let main_kind = threads[0]["kind"].as_str().unwrap_or("main").to_string();
        if main_kind == "main-registered" {
            steel_rc::register_thread();
        }
        MERGING.store(false, Ordering::SeqCst);
        MERGE_OWNER.store(usize::MAX, Ordering::SeqCst);
        let spawn_at: Vec<usize> = workload["spawn_at"]
            .as_array()
            .map(|a| a.iter().map(|x| x.as_u64().unwrap_or(0) as usize).collect())
            .unwrap_or_default();
        let mut spawned = vec![false; total];
        let mut sim_ids: Vec<usize> = Vec::new();
        let threads2 = threads.clone();
        let mut spawn = |i: usize| {
            for t in 1..total {
                let at = spawn_at.get(t - 1).copied().unwrap_or(0);
                if !spawned[t] && at <= i {
                    spawned[t] = true;
                    let ops: Vec<Value> = threads2[t]["ops"].as_array().cloned().unwrap_or_default();
                    let kind = threads2[t]["kind"].as_str().unwrap_or("explicit").to_string();
                    let body = move || {
                        let mut held: Vec<H> = Vec::new();
                        run_ops(t, &ops, shared, &mut held, &mut |_| {});
                        // leave: drop what is still held, then the exit protocol
                        drop_all(t, &mut held);
                        let (n, id) = (now(), me());
                        model(|m| {
                            m.exit_step.insert(id, n);
                        });
                        // the exit merge starts with a map operation
                        wait_no_merge();
                    };
                    let before = sched::with_inner(|i| i.nthreads).unwrap_or(0);
                    if kind == "explicit" {
                        let _ = steel_rc::with_explicit_merge(body);
                    } else {
                        let reg = kind == "raw-registered";
                        sched::spawn(true, move || {
                            if reg {
                                wait_no_merge();
                                steel_rc::register_thread();
                            }
                            body();
                            locked_merge();
                            wait_no_merge();
                            steel_rc::QueueHandle::finish_thread_merge();
                        });
                    }
                    sim_ids.push(before);
                }
            }
        };
        let main_ops: Vec<Value> = threads[0]["ops"].as_array().cloned().unwrap_or_default();
        let mut held: Vec<H> = Vec::new();
        run_ops(0, &main_ops, shared, &mut held, &mut spawn);
        drop(spawn);
        for t in 1..total {
            sched::join(t);
        }
        // quiescence: drain inboxes, drop everything, merge
        for ib in shared.inboxes.iter() {
            loop {
                let h = ib.lock().unwrap().pop_front();
                match h {
                    Some(h) => held.push(h),
                    None => break,
                }
            }
        }
        drop_all(0, &mut held);
        locked_merge();
        // I5: everything destroyed exactly once
        let (mut nontrivial, mut leak): (bool, Option<(String, String)>) = (false, None);
        model(|m| {
            for (_, tids) in m.touched.iter() {
                if tids.len() >= 2 {
                    nontrivial = true;
                }
            }
            let root_leak = m.objs.iter().any(|o| o.dropped == 0 && o.count == 0);
            for (id, o) in m.objs.iter().enumerate() {
                if o.dropped == 0 {
                    if o.count > 0 && root_leak {
                        // its remaining handle sits in the payload of an object that
                        // was itself never destroyed: a consequence, not a second leak
                        continue;
                    }
                    let owner_exit = m.exit_step.get(&o.creator).copied();
                    let class = match owner_exit {
                        Some(e) if o.creator != 0 && e <= o.last_drop_end_step => "owner-exited-before-last-drop",
                        _ => "other",
                    };
                    if leak.is_none() || class == "other" {
                        leak = Some((
                            format!("C05/leak/{}", class),
                            format!(
                                "object {} (created by t{}, which began its exit merge at step {:?}) never destroyed: last handle dropped by t{} at step {}; queue stats {:?}",
                                id,
                                o.creator,
                                owner_exit,
                                o.last_dropper,
                                o.last_drop_end_step,
                                steel_rc::verif::queue_stats()
                            ),
                        ));
                    }
                }
            }
        });
        report::set_nontrivial(nontrivial);
        if let Some((sig, detail)) = leak {
            report::violation(&sig, detail);
        }
    }

    fn shrink(&self, w: &Value) -> Vec<Value> {
        let mut out = Vec::new();
        let threads = match w["threads"].as_array() {
            Some(t) => t,
            None => return out,
        };
        // drop the last thread entirely
        if threads.len() > 2 {
            let mut c = w.clone();
            c["threads"].as_array_mut().unwrap().pop();
            if let Some(a) = c["spawn_at"].as_array_mut() {
                a.pop();
            }
            out.push(c);
        }
        // drop single ops
        for (t, th) in threads.iter().enumerate() {
            let n = th["ops"].as_array().map(|a| a.len()).unwrap_or(0);
            for i in (0..n).rev() {
                let mut c = w.clone();
                c["threads"][t]["ops"].as_array_mut().unwrap().remove(i);
                out.push(c);
            }
        }
        out
    }

    fn rule(&self) -> String {
        "each evaluation = one forked run of 2-4 real threads executing a seeded program of 4-12 operations each (new/clone/drop/move/clone-and-move/receive/read/get_mut/make_mut/try_unwrap/strong_count/explicit merge/nest a handle inside the payload of another object/thread exit) on 1-3 BiasedRc objects (destroying an object drops the handle nested in it, also when the destruction happens inside a merge), with a scheduling decision before every count-word access; non-trivial = at least two threads touched the count word of one object; distinct = distinct (workload, event trace) fingerprints".into()
    }
    fn assumptions(&self) -> Vec<String> {
        vec![
            "interleavings are explored at count-word-access granularity under sequential consistency; weak-memory reorderings of the Relaxed/AcqRel accesses are not modelled".into(),
            "thread-local addresses are not reused within a run (finished threads stay parked), so adoption of a dead thread's queue by an address-reusing thread is not explored".into(),
            "freed boxes are quarantined (never returned to the allocator) so that a later access is observed instead of being undefined behaviour".into(),
        ]
    }
    fn components(&self) -> Value {
        json!({"real": ["steel-rc (BiasedRc, RcBox, QueueHandle, with_explicit_merge)"],
               "simulated": ["OS scheduler (token scheduler, seeded)", "channel between threads (harness queue)", "thread lifetime (threads park after their exit protocol)", "allocator free (quarantine)"]})
    }
}
