//! C07 — errors are returned and leave the engine usable (fault-history slice).
//!
//! A corpus of small programs covering the contexts an error can unwind from;
//! an error is injected at *every* dispatch step of each program (interrupt
//! seam), at every call of a host function, and a failing form is spliced at
//! every form position; faulted and clean evaluations are interleaved on one
//! engine. Oracle: `run` returns (never panics, never crashes), stacks empty,
//! probe program and all earlier definitions intact, definitions of the hit
//! program absent or complete, a clean re-run of the program gives its value.

use crate::report;
use crate::rng::Rng;
use crate::runner::{self, Scenario, Spec};
use crate::vmh;
use serde_json::{json, Value};
use std::sync::atomic::{AtomicU64, Ordering};
use std::sync::Mutex;
use steel::rerrs::{ErrorKind, SteelErr};
use steel::SteelVal;

pub struct C07;

pub const BASE: &str = r#"
(define (loop i acc) (if (= i 0) acc (loop (- i 1) (+ acc i))))
(define base-a 10)
(define (base-f x) (+ x base-a))
(define base-box (box 77))
(define base-vec (mutable-vector 1 2 3))
(define wind-outs (box 0))
(define (wind-out!) (set-box! wind-outs (+ 1 (unbox wind-outs))))
(define base-param (make-parameter 'default))
"#;

/// (name, source, rendered final value, names it defines)
pub const CORPUS: &[(&str, &str, &str, &[&str])] = &[
    ("plain-loop", "(define r1 (loop 50 0))\nr1", "1275", &["r1"]),
    ("arg-position", "(define (f3 a b c) (+ a b c))\n(define r2 (f3 (loop 10 0) (loop 20 0) (loop 5 0)))\nr2", "280", &["f3", "r2"]),
    ("map-callback", "(define r4 (map (lambda (x) (* x x)) (range 0 30)))\n(apply + r4)", "8555", &["r4"]),
    ("transducer", "(define r5 (transduce (range 0 50) (mapping (lambda (x) (+ x 1))) (into-sum)))\nr5", "1275", &["r5"]),
    ("sort-comparator", "(define r6 (sort (list 3 1 2 9 4 7 5) <))\nr6", "(1 2 3 4 5 7 9)", &["r6"]),
    ("dynamic-wind", "(define wlog '())\n(define r8 (dynamic-wind (lambda () (set! wlog (cons 'in wlog))) (lambda () (loop 30 0)) (lambda () (wind-out!) (set! wlog (cons 'out wlog)))))\n(list r8 wlog)", "(465 (out in))", &["wlog", "r8"]),
    ("handler", "(define r9 (with-handler (lambda (e) (loop 10 0)) (begin (loop 30 0) (error \"x\"))))\nr9", "55", &["r9"]),
    ("callcc-escape", "(define r10 (call/cc (lambda (k) (let lp ((i 0)) (if (= i 40) (k i) (lp (+ i 1)))))))\nr10", "40", &["r10"]),
    ("hash-string", "(define r12 (let ((h (hash 'a 1 'b 2))) (hash-ref (hash-insert h 'c 3) 'c)))\n(define r12b (string-append \"ab\" (number->string (loop 10 0))))\n(list r12 r12b)", "(3 \"ab55\")", &["r12", "r12b"]),
    ("closure-counter", "(define (make-counter) (let ((n 0)) (lambda () (set! n (+ n 1)) n)))\n(define cnt (make-counter))\n(define r13 (begin (cnt) (cnt) (cnt)))\nr13", "3", &["make-counter", "cnt", "r13"]),
    ("macro", "(define-syntax swap! (syntax-rules () ((_ a b) (let ((tmp a)) (set! a b) (set! b tmp)))))\n(define r15 (let ((x 1) (y 2)) (swap! x y) (list x y)))\nr15", "(2 1)", &["r15"]),
    ("nested-map", "(define r16 (map (lambda (x) (apply + (map (lambda (y) (* x y)) (range 0 5)))) (range 0 6)))\nr16", "(0 10 20 30 40 50)", &["r16"]),
    ("deep-recursion", "(define (deep n) (if (= n 0) 0 (+ 1 (deep (- n 1)))))\n(define r18 (deep 200))\nr18", "200", &["deep", "r18"]),
    ("mutable-state", "(define mv (mutable-vector 1 2 3))\n(vector-set! mv 0 (loop 10 0))\n(define r19 (mut-vector-ref mv 0))\n(define b19 (box 5))\n(set-box! b19 (+ (unbox b19) r19))\n(unbox b19)", "60", &["mv", "r19", "b19"]),
    ("foldl", "(define r20 (foldl (lambda (x acc) (+ x acc)) 0 (range 0 40)))\nr20", "780", &["r20"]),
    ("struct", "(struct pt (x y))\n(define r21 (let ((p (pt 3 4))) (+ (pt-x p) (pt-y p))))\nr21", "7", &["r21"]),
    ("filter", "(define (gen-list n) (let lp ((i 0) (acc '())) (if (= i n) (reverse acc) (lp (+ i 1) (cons i acc)))))\n(define r22 (length (filter even? (gen-list 60))))\nr22", "30", &["gen-list", "r22"]),
    ("for-each", "(define r23b (let ((acc 0)) (for-each (lambda (x) (set! acc (+ acc x))) (range 0 10)) acc))\nr23b", "45", &["r23b"]),
    ("parameterize", "(define p24 (make-parameter 1))\n(define r24 (parameterize ((p24 2)) (+ (p24) (loop 10 0))))\n(list r24 (p24))", "(57 1)", &["p24", "r24"]),
    ("host-in-map", "(define r30 (map (lambda (x) (host-op x)) (range 0 8)))\n(apply + r30)", "36", &["r30"]),
    ("host-in-wind", "(define wlog2 '())\n(define r31 (dynamic-wind (lambda () (set! wlog2 (cons 'in wlog2))) (lambda () (+ (host-op 1) (host-op 2))) (lambda () (wind-out!) (set! wlog2 (cons 'out wlog2)))))\n(list r31 wlog2)", "(5 (out in))", &["wlog2", "r31"]),
    ("host-in-handler", "(define r32 (with-handler (lambda (e) (host-op 10)) (begin (host-op 1) (error \"y\"))))\nr32", "11", &["r32"]),
    ("host-in-args", "(define r33 (+ (host-op 1) (loop 5 0) (host-op (host-op 2))))\nr33", "21", &["r33"]),
    ("host-in-transduce", "(define r34 (transduce (range 0 6) (mapping (lambda (x) (host-op x))) (into-list)))\nr34", "(1 2 3 4 5 6)", &["r34"]),
    ("wind-in-handler-in-map", "(define wlog3 '())\n(define r35 (map (lambda (x) (with-handler (lambda (e) -1) (dynamic-wind (lambda () (set! wlog3 (cons x wlog3))) (lambda () (if (= x 2) (error \"two\") (* x 10))) (lambda () (wind-out!) (set! wlog3 (cons (- 0 x) wlog3)))))) (list 1 2 3)))\n(list r35 (length wlog3))", "((10 -1 30) 6)", &["wlog3", "r35"]),
    ("deep-native-callback", "(define (cb1 x) (+ 1 (host-op x)))\n(define (cb2 x) (+ 1 (cb1 x)))\n(define (run-tr n) (+ 1 (apply + (transduce (range 0 n) (mapping (lambda (x) (cb2 x))) (into-list)))))\n(define r40 (with-handler (lambda (e) -1) (run-tr 4)))\nr40", "19", &["cb1", "cb2", "run-tr", "r40"]),
    ("handler-in-function-around-native", "(define (cb3 x) (+ 2 (host-op x)))\n(define (run-tr2 n) (+ 1 (apply + (transduce (range 0 n) (filtering (lambda (x) (> (cb3 x) 0))) (mapping (lambda (x) (cb3 x))) (into-list)))))\n(define (guarded n) (with-handler (lambda (e) (loop 3 0)) (run-tr2 n)))\n(define r41 (list (guarded 3) (guarded 2)))\nr41", "(13 8)", &["cb3", "run-tr2", "guarded", "r41"]),
    ("error-in-native-callback-caught", "(define (bad1 x) (+ 1 (car x)))\n(define (bad2 x) (+ 1 (bad1 x)))\n(define (run-bad) (+ 1 (apply + (transduce (list 1 2 3) (mapping (lambda (x) (+ 1 (bad2 x)))) (into-list)))))\n(define r42 (list (with-handler (lambda (e) 'caught) (run-bad)) (loop 4 0)))\nr42", "(caught 10)", &["bad1", "bad2", "run-bad", "r42"]),
    ("sort-deep-comparator", "(define (lt2 a b) (< (host-op a) (host-op b)))\n(define (lt1 a b) (lt2 a b))\n(define (sorted xs) (sort xs (lambda (a b) (lt1 a b))))\n(define r43 (car (sorted (list 3 1 2))))\nr43", "1", &["lt2", "lt1", "sorted", "r43"]),
    ("parameterize-base", "(define r44 (parameterize ((base-param 'inner)) (list (base-param) (loop 10 0))))\n(list r44 (base-param))", "((inner 55) default)", &["r44"]),
    ("wind-in-function-with-host", "(define (w45 a) (dynamic-wind (lambda () 0) (lambda () (+ a (host-op a))) (lambda () (wind-out!))))\n(define r45 (list 1 (w45 3)))\nr45", "(1 7)", &["w45", "r45"]),
    ("reader-zoo", "(define r46 (list #\\a #\\space (string-length \"a\\\"b\\n\") '#(1 2) (quote (a . b)) `(1 ,(+ 1 1) ,@(list 3)) -7 1/2 1.5e1 #t #false 'sym #\\λ #| block |# #;(dropped) (bytes 1 2)))\n(length r46)", "14", &["r46"]),
    ("callcc-reenter", "(define r36 (let ((k #f) (n 0)) (let ((v (+ 100 (call/cc (lambda (c) (set! k c) 0))))) (if (< n 3) (begin (set! n (+ n 1)) (k n)) (list v n)))))\nr36", "(103 3)", &["r36"]),
];

/// Programs that fail by themselves: (name, the evaluations they consist of).
/// At least one evaluation must return an error; none may panic; afterwards
/// the engine must be usable.
pub const FAILING: &[(&str, &[&str])] = &[
    ("non-procedure-exception-handler", &["(define (h47 a b c) (call-with-exception-handler 5 (lambda () (error \"boom\"))))", "(h47 7 8 9)"]),
    ("builtin-as-exception-handler", &["(define (h48 a b c) (call-with-exception-handler car (lambda () (error \"boom\"))))", "(h48 7 8 9)"]),
    ("uncaught-error-in-deep-native-callback", &["(define (bad3 x) (+ 1 (car x)))\n(define (bad4 x) (+ 1 (bad3 x)))\n(define (run-bad2 a b) (+ a b (apply + (transduce (list 1 2 3) (mapping (lambda (x) (+ 1 (bad4 x)))) (into-list)))))", "(run-bad2 1 2)"]),
    ("error-in-sort-comparator-in-function", &["(define (cmp-bad a b) (< (car a) b))\n(define (sort-bad x y) (+ x y (car (sort (list 3 1 2) (lambda (a b) (cmp-bad a b))))))", "(sort-bad 1 2)"]),
    ("error-in-argument-of-deep-call", &["(define (f49 a b c) (+ a b c))\n(define (g49 x) (f49 x (f49 1 2 (car x)) 3))", "(+ 1 (g49 5))"]),
    ("error-inside-dynamic-wind-in-function", &["(define (w50 a) (dynamic-wind (lambda () 0) (lambda () (+ a (car a))) (lambda () 0)))", "(list 1 2 (w50 3))"]),
    ("error-in-callback-of-counting-transducer", &["(transduce (list 1 2 3) (mapping (lambda (x) (car x))) (into-count))"]),
    ("error-in-callback-of-last-transducer", &["(transduce (list 1 2 3) (mapping (lambda (x) (if (= x 2) (car x) x))) (into-last))"]),
    ("error-in-callback-of-nth-transducer", &["(transduce (list 1 2 3) (mapping (lambda (x) (if (= x 1) (car x) x))) (into-nth 2))"]),
    ("host-initiated-call-fails", &["(define (hc52 a b) (+ a (car b)))", "#call hc52"]),
    // the host passes two arguments: a callee that takes one, three, or at
    // least three is refused before its body runs
    ("host-initiated-call-too-many-arguments", &["(define (hc55 a) (+ a 1))", "#call hc55"]),
    ("host-initiated-call-too-few-arguments", &["(define (hc56 a b c) (+ a b c))", "#call hc56"]),
    ("host-initiated-call-too-few-for-rest", &["(define (hc57 a b c . more) (+ a b c))", "#call hc57"]),
    ("error-inside-dynamic-wind-with-counter", &["(define (w53 a) (dynamic-wind (lambda () 0) (lambda () (+ a (car a))) (lambda () (wind-out!))))", "(list 1 2 (w53 3))"]),
    ("error-inside-parameterize", &["(define (p54 a) (parameterize ((base-param 'inner)) (+ a (car a))))", "(list 1 (p54 3))"]),
];

static HOST_CALLS: AtomicU64 = AtomicU64::new(0);
static HOST_FAIL_AT: AtomicU64 = AtomicU64::new(u64::MAX);
static HOST_FAILED: AtomicU64 = AtomicU64::new(0);

fn host_op(args: &[SteelVal]) -> steel::rvals::Result<SteelVal> {
    let n = HOST_CALLS.fetch_add(1, Ordering::SeqCst);
    if n == HOST_FAIL_AT.load(Ordering::SeqCst) {
        HOST_FAILED.fetch_add(1, Ordering::SeqCst);
        report::fault("host_error@call");
        return Err(SteelErr::new(ErrorKind::Generic, "host function failed (injected)".to_string()));
    }
    match args.first() {
        Some(SteelVal::IntV(i)) => Ok(SteelVal::IntV(i + 1)),
        _ => Err(SteelErr::new(ErrorKind::TypeMismatch, "host-op expects an integer".to_string())),
    }
}

/// One planned fault: (program, jit, kind, position)
#[derive(Clone, Debug)]
struct Planned {
    prog: usize,
    jit: bool,
    kind: &'static str, // interrupt | host | compile
    at: u64,
}

static PLAN: Mutex<Vec<Planned>> = Mutex::new(Vec::new());

fn forms_of(src: &str) -> Vec<String> {
    src.split('\n').map(|s| s.to_string()).collect()
}

impl C07 {
    fn calibrate(&self) {
        let mut plan = Vec::new();
        for (pi, prog) in CORPUS.iter().enumerate() {
            for jit in [false, true] {
                let spec = Spec {
                    seed: 1,
                    index: pi as u64,
                    overrides: json!({"calibrate": pi, "jit": jit}),
                    replay: None,
                    strict: false,
                    full_trace: false,
                    tier_thorough: false,
                    gen_only: false,
                };
                let r = runner::run_one(self, &spec);
                let n = r.raw["extra"]["dispatches"].as_u64().unwrap_or(0);
                let calls = r.raw["extra"]["host_calls"].as_u64().unwrap_or(0);
                if r.outcome != "ok" || n == 0 {
                    eprintln!("HARNESS-ERROR: calibration of {} failed: {} {} {}", prog.0, r.outcome, r.signature, r.detail);
                    std::process::exit(2);
                }
                for k in 0..n {
                    plan.push(Planned { prog: pi, jit, kind: "interrupt", at: k });
                }
                for c in 0..calls {
                    plan.push(Planned { prog: pi, jit, kind: "host", at: c });
                }
                if !jit {
                    // the text cut at every byte position (a torn submission)
                    for b in 0..prog.1.len() as u64 {
                        if prog.1.is_char_boundary(b as usize) {
                            plan.push(Planned { prog: pi, jit, kind: "truncate", at: b });
                        }
                    }
                }
                let nforms = forms_of(prog.1).len() as u64;
                for p in 0..=nforms {
                    plan.push(Planned { prog: pi, jit, kind: "compile", at: p });
                    plan.push(Planned { prog: pi, jit, kind: "runtime", at: p });
                }
            }
        }
        for (fi, _) in FAILING.iter().enumerate() {
            for jit in [false, true] {
                plan.push(Planned { prog: fi, jit, kind: "own", at: 0 });
            }
        }
        *PLAN.lock().unwrap() = plan;
    }
}

fn program_with_fault(pi: usize, kind: &str, at: u64) -> String {
    let src = CORPUS[pi].1;
    match kind {
        "compile" | "runtime" => {
            let mut forms = forms_of(src);
            let bad = if kind == "compile" { "(this-name-is-not-defined-anywhere 1)" } else { "(car 5)" };
            let pos = (at as usize).min(forms.len());
            forms.insert(pos, bad.to_string());
            forms.join("\n")
        }
        "truncate" => src[..(at as usize).min(src.len())].to_string(),
        _ => src.to_string(),
    }
}

/// Dynamic state must be as the failed evaluation found it: the parameters have
/// their global values again. (A continuation kept from an earlier evaluation
/// cannot serve as an observer of the wind list: the instructions of a finished
/// evaluation are freed, see DESIGN.md section 10.)
fn check_dynamic_state(engine: &mut steel::steel_vm::engine::Engine, what: &str, kind: &str, prog: &str) {
    vmh::set_context("dynamic-state-probe");
    let got = vmh::eval(engine, "(base-param)").map(|v| v.last().cloned().unwrap_or_default());
    if got.as_deref() != Ok("default") {
        report::violation(
            &format!("C07/dynamic-state-residue/{}/{}", kind, prog),
            format!("{}: after the evaluation returned, (base-param) at top level is {:?}, not its global value", what, got),
        );
    }
}

fn check_engine_usable(engine: &mut steel::steel_vm::engine::Engine, what: &str) {
    let st = engine.verif_stack_state();
    if st.stack != 0 || st.frames != 0 {
        report::violation(
            "C07/stack-residue",
            format!("{}: stacks not empty after the evaluation returned: {:?}", what, st),
        );
    }
    // probe: new definitions work, old ones are intact, mutable state is intact
    vmh::set_context("probe");
    match vmh::eval(engine, "(define probe-x 5)\n(let ((pa (base-f 1)) (pb (base-f 2))) (list (+ probe-x 1) pa pb base-a (unbox base-box) (mut-vector-ref base-vec 2) (loop 4 0)))") {
        Ok(v) => {
            if v.last().map(|s| s.as_str()) != Some("(6 11 12 10 77 3 10)") {
                report::violation(
                    "C07/probe-wrong-value",
                    format!("{}: probe evaluated to {:?}, expected (6 11 12 10 77 3 10)", what, v.last()),
                );
            }
        }
        Err(e) => report::violation("C07/probe-failed", format!("{}: probe program failed: {}", what, e)),
    }
}

fn run_own(engine: &mut steel::steel_vm::engine::Engine, p: &Planned, seq: usize) {
    let prog = &FAILING[p.prog];
    let what = format!("[{}] {} ({})", seq, prog.0, if p.jit { "jit" } else { "nojit" });
    vmh::set_context(&format!("own/{}", prog.0));
    vmh::set_interrupt_at(None);
    HOST_FAIL_AT.store(u64::MAX, Ordering::SeqCst);
    let mut failed = 0;
    for piece in prog.1 {
        let is_err = match piece.strip_prefix("#call ") {
            // a call that the host starts itself, outside Engine::run
            Some(name) => engine
                .call_function_by_name_with_args(name, vec![SteelVal::IntV(1), SteelVal::IntV(2)])
                .is_err(),
            None => vmh::eval(engine, piece).is_err(),
        };
        if is_err {
            failed += 1;
        }
        let st = engine.verif_stack_state();
        if st.stack != 0 || st.frames != 0 {
            report::violation(
                &format!("C07/stack-residue/own/{}", prog.0),
                format!("{}: after {:?} returned the stacks are not empty: {:?}", what, piece, st),
            );
        }
    }
    report::fault("own-error");
    if failed == 0 {
        report::violation(
            &format!("C07/failing-program-succeeded/{}", prog.0),
            format!("{}: no evaluation of a program that must fail returned an error", what),
        );
    }
    check_engine_usable(engine, &what);
    check_dynamic_state(engine, &what, "own", prog.0);
}

fn run_faulted(engine: &mut steel::steel_vm::engine::Engine, p: &Planned, seq: usize) {
    if p.kind == "own" {
        return run_own(engine, p, seq);
    }
    let prog = &CORPUS[p.prog];
    let what = format!("[{}] {} {}@{} ({})", seq, prog.0, p.kind, p.at, if p.jit { "jit" } else { "nojit" });
    let src = program_with_fault(p.prog, p.kind, p.at);
    vmh::set_context(&format!("{}/{}", p.kind, prog.0));
    HOST_CALLS.store(0, Ordering::SeqCst);
    HOST_FAILED.store(0, Ordering::SeqCst);
    HOST_FAIL_AT.store(if p.kind == "host" { p.at } else { u64::MAX }, Ordering::SeqCst);
    vmh::MAIN_DISPATCHES.store(0, Ordering::SeqCst);
    vmh::set_interrupt_at(if p.kind == "interrupt" { Some(p.at) } else { None });
    let res = vmh::eval(engine, &src);
    let fired = match p.kind {
        "interrupt" => vmh::INTERRUPT_FIRED_AT.load(Ordering::SeqCst) != u64::MAX,
        "host" => HOST_FAILED.load(Ordering::SeqCst) > 0,
        _ => true,
    };
    vmh::set_interrupt_at(None);
    HOST_FAIL_AT.store(u64::MAX, Ordering::SeqCst);
    engine.get_thread_state_controller().resume();
    if fired {
        report::probe(&format!("fault-fired.{}", p.kind));
    } else {
        report::probe(&format!("fault-not-reached.{}", p.kind));
    }
    match (&res, fired) {
        (Ok(v), false) => {
            if v.last().map(|s| s.as_str()) != Some(prog.2) {
                report::violation(
                    "C07/clean-run-wrong-value",
                    format!("{}: evaluated to {:?}, expected {}", what, v.last(), prog.2),
                );
            }
        }
        (Err(e), false) => report::violation("C07/clean-run-failed", format!("{}: {}", what, e)),
        (Ok(_), true) if p.kind == "compile" || p.kind == "runtime" => report::violation(
            "C07/failing-program-succeeded",
            format!("{}: a program with a failing form returned Ok", what),
        ),
        _ => {}
    }
    check_engine_usable(engine, &what);
    check_dynamic_state(engine, &what, if fired { p.kind } else { "none" }, prog.0);
    // definitions of the hit program: absent (error / empty slot) or complete
    if fired {
        vmh::set_context(&format!("after-{}/{}", p.kind, prog.0));
        for name in prog.3 {
            let r = vmh::eval(engine, name);
            if let Ok(v) = &r {
                let s = v.last().cloned().unwrap_or_default();
                if s.contains("panic") {
                    report::violation("C07/half-made-definition", format!("{}: {} reads as {}", what, name, s));
                }
            }
        }
    }
    // a clean run of the same program now gives its value
    vmh::set_context(&format!("rerun/{}", prog.0));
    match vmh::eval(engine, prog.1) {
        Ok(v) => {
            if v.last().map(|s| s.as_str()) != Some(prog.2) {
                report::violation(
                    &format!("C07/rerun-wrong-value/{}", prog.0),
                    format!("{}: clean re-run evaluated to {:?}, expected {}", what, v.last(), prog.2),
                );
            }
        }
        Err(e) => report::violation(
            &format!("C07/rerun-failed/{}", prog.0),
            format!("{}: clean re-run failed: {}", what, e),
        ),
    }
    check_engine_usable(engine, &format!("{} (after re-run)", what));
}

impl Scenario for C07 {
    fn name(&self) -> &'static str {
        "c07-faults"
    }
    fn property(&self) -> &'static str {
        "C07"
    }
    fn setup(&self) {
        vmh::build_prototypes(true, true);
        if PLAN.lock().unwrap().is_empty() {
            self.calibrate();
        }
    }
    fn default_runs(&self, thorough: bool) -> u64 {
        let n = PLAN.lock().unwrap().len() as u64;
        if thorough { n * 4 } else { n }
    }
    fn timeout_ms(&self) -> u64 {
        60_000
    }

    fn child(&self, spec: &Spec) {
        // calibration pass: count dispatch steps and host calls of one program
        if let Some(pi) = spec.overrides["calibrate"].as_u64() {
            let jit = spec.overrides["jit"].as_bool().unwrap_or(false);
            let mut engine = vmh::start(
                spec,
                vmh::VmOptions {
                    property: "C07",
                    jit,
                    faults: vmh::default_faults(spec.seed, spec.index),
                    yield_at_dispatch: false,
                    max_steps: 100_000_000,
                    expected_steps: 5_000,
                    on_stop: report::stop_is_harness_error,
                    panic_class: |_| None,
                },
            );
            engine.register_value("host-op", SteelVal::FuncV(host_op));
            if let Err(e) = vmh::eval(&mut engine, BASE) {
                report::harness_error(format!("base prelude failed: {}", e));
            }
            HOST_CALLS.store(0, Ordering::SeqCst);
            vmh::MAIN_DISPATCHES.store(0, Ordering::SeqCst);
            match vmh::eval(&mut engine, CORPUS[pi as usize].1) {
                Ok(v) if v.last().map(|s| s.as_str()) == Some(CORPUS[pi as usize].2) => {}
                // the planned runs re-run the program cleanly and report this as a
                // violation with a replay file; the plan only needs the step count
                other => report::set_extra("calibration_mismatch", json!(format!("{:?}", other))),
            }
            report::set_extra("dispatches", json!(vmh::MAIN_DISPATCHES.load(Ordering::SeqCst)));
            report::set_extra("host_calls", json!(HOST_CALLS.load(Ordering::SeqCst)));
            return;
        }
        let plan = PLAN.lock().unwrap().clone();
        let mut rng = Rng::derive(spec.seed, spec.index, 1);
        let first: Planned = if spec.overrides.is_null() {
            plan[(spec.index as usize) % plan.len()].clone()
        } else {
            let o = &spec.overrides["seq"][0];
            Planned {
                prog: o["prog"].as_u64().unwrap_or(0) as usize,
                jit: spec.overrides["jit"].as_bool().unwrap_or(false),
                kind: match o["kind"].as_str().unwrap_or("interrupt") {
                    "host" => "host",
                    "compile" => "compile",
                    "runtime" => "runtime",
                    "own" => "own",
                    "truncate" => "truncate",
                    _ => "interrupt",
                },
                at: o["at"].as_u64().unwrap_or(0),
            }
        };
        // the rest of the history: 0-3 more faulted evaluations of random programs
        let mut seq = vec![first.clone()];
        if spec.overrides.is_null() {
            let extra = rng.below(4);
            for _ in 0..extra {
                let own = rng.chance(1, 4);
                let cands: Vec<&Planned> = plan.iter().filter(|p| p.jit == first.jit && (p.kind == "own") == own).collect();
                seq.push((*rng.pick(&cands)).clone());
            }
        } else {
            for o in spec.overrides["seq"].as_array().into_iter().flatten().skip(1) {
                seq.push(Planned {
                    prog: o["prog"].as_u64().unwrap_or(0) as usize,
                    jit: first.jit,
                    kind: match o["kind"].as_str().unwrap_or("interrupt") {
                        "host" => "host",
                        "compile" => "compile",
                        "runtime" => "runtime",
                        "own" => "own",
                        "truncate" => "truncate",
                        _ => "interrupt",
                    },
                    at: o["at"].as_u64().unwrap_or(0),
                });
            }
        }
        let w = json!({
            "jit": first.jit,
            "seq": seq.iter().map(|p| json!({"prog": p.prog, "name": if p.kind == "own" { FAILING[p.prog].0 } else { CORPUS[p.prog].0 }, "kind": p.kind, "at": p.at})).collect::<Vec<_>>(),
        });
        report::set_workload(w.clone());
        if spec.gen_only {
            return;
        }
        let mut faults = vmh::default_faults(spec.seed, spec.index);
        faults.heap_chunk = 256;
        let mut engine = vmh::start(
            spec,
            vmh::VmOptions {
                property: "C07",
                jit: first.jit,
                faults,
                yield_at_dispatch: false,
                max_steps: 100_000_000,
                expected_steps: 5_000,
                on_stop: report::stop_is_harness_error,
                panic_class: |m| vmh::panic_signature("C07", m),
            },
        );
        engine.register_value("host-op", SteelVal::FuncV(host_op));
        vmh::set_context("base");
        if let Err(e) = vmh::eval(&mut engine, BASE) {
            report::harness_error(format!("base prelude failed: {}", e));
        }
        for (i, p) in seq.iter().enumerate() {
            run_faulted(&mut engine, p, i);
        }
        report::set_nontrivial(true);
    }

    fn shrink(&self, w: &Value) -> Vec<Value> {
        let mut out = Vec::new();
        let n = w["seq"].as_array().map(|a| a.len()).unwrap_or(0);
        if n > 1 {
            for i in (0..n).rev() {
                let mut c = w.clone();
                c["seq"].as_array_mut().unwrap().remove(i);
                out.push(c);
            }
        }
        out
    }

    fn rule(&self) -> String {
        format!("fault enumeration: {} corpus programs x 2 tiers x (an interrupt at every dispatch step + a host-function error at every host call + a failing form (compile-time and run-time) spliced at every form position), plus {} programs that fail by themselves (non-procedure handlers, errors deep inside callbacks of native procedures called from functions, an error inside parameterize); the plan has {} entries and run i executes entry i mod plan (all entries are executed once in the quick tier), followed by 0-3 further faulted evaluations of random programs on the same engine, each followed by stack check, probe program, definition check and a clean re-run; non-trivial = every run; distinct = distinct (workload, event trace)", CORPUS.len(), FAILING.len(), PLAN.lock().unwrap().len())
    }
    fn assumptions(&self) -> Vec<String> {
        vec![
            "arbitrary source text and arbitrary argument tuples of built-ins are not decided here (pure functions of the input: fuzzing targets)".into(),
            "an interrupt can only arrive at an interpreter dispatch step; native-compiled code re-enters the dispatch loop at calls".into(),
            "a name whose definition never ran may read as an error or as the empty slot (#<void>)".into(),
        ]
    }
    fn components(&self) -> Value {
        json!({"real": ["compiler", "VM", "JIT (both tiers enumerated)", "error unwinding", "dynamic-wind / handlers / continuations", "host function boundary"],
               "simulated": ["interrupt arrival (raised at a chosen dispatch step through ThreadStateController)", "host function errors", "failing forms spliced into programs"]})
    }
}
