//! Site ids: 1..99 steel-rc access sites, 100..999 steel-core hook sites,
//! 1000.. harness sites.

pub const H_SPAWN: u32 = 1000;
pub const H_THREAD_END: u32 = 1001;
pub const H_JOIN: u32 = 1002;
pub const H_OP: u32 = 1003;
pub const H_INBOX: u32 = 1004;
pub const H_HOST: u32 = 1005;
pub const H_LEND_END: u32 = 1006;
pub const H_METHOD: u32 = 1007;
pub const H_CLOCK_JUMP: u32 = 1008;
pub const H_HOST_INTERRUPT: u32 = 1009;

pub fn name(site: u32) -> String {
    match site {
        0 => "-".to_string(),
        1..=99 => format!("rc.{}", steel_rc::verif::site::name(site)),
        100..=999 => format!("vm.{}", crate::vmsites::name(site)),
        H_SPAWN => "h.spawn".into(),
        H_THREAD_END => "h.thread_end".into(),
        H_JOIN => "h.join".into(),
        H_OP => "h.op".into(),
        H_INBOX => "h.inbox".into(),
        H_HOST => "h.host".into(),
        H_LEND_END => "h.lend_end".into(),
        H_METHOD => "h.method".into(),
        H_CLOCK_JUMP => "h.clock_jump".into(),
        H_HOST_INTERRUPT => "h.host_interrupt".into(),
        _ => format!("site{}", site),
    }
}
