//! C03 — immutable values never change: in-place update optimisation is
//! unobservable.
//!
//! 1-3 script threads plus main share base values (hash map, hash set,
//! immutable vector, list, string) through globals and apply seeded chains of
//! functional updates; some intermediate values are used exactly once (so the
//! last use can be moved and updated in place), others are kept and queried at
//! the end. Instruction-level interleaving between threads decides who holds
//! which reference when an update runs; forced collections. Oracle: a snapshot
//! model of every kept value.

use crate::report;
use crate::rng::Rng;
use crate::runner::{Scenario, Spec};
use crate::sched;
use crate::vmh;
use serde_json::{json, Value};
use std::collections::{BTreeMap, BTreeSet};

pub struct C03;

#[derive(Clone, Debug)]
enum V {
    Hash(BTreeMap<i64, i64>),
    Set(BTreeSet<i64>),
    Vec(Vec<i64>),
    List(Vec<i64>),
    Str(String),
}

const KINDS: &[&str] = &["hash", "set", "vec", "list", "str"];

fn base_of(kind: &str) -> (String, V) {
    match kind {
        "hash" => ("(hash 0 10 1 11 2 12)".into(), V::Hash([(0, 10), (1, 11), (2, 12)].into_iter().collect())),
        "set" => ("(hashset 1 2 3)".into(), V::Set([1, 2, 3].into_iter().collect())),
        "vec" => ("(immutable-vector 1 2 3)".into(), V::Vec(vec![1, 2, 3])),
        "list" => ("(list 1 2 3)".into(), V::List(vec![1, 2, 3])),
        _ => ("\"abc\"".into(), V::Str("abc".into())),
    }
}

/// A value equal to `base_of(kind)` that is built at run time by the thread
/// that evaluates the expression (so that thread owns it).
fn fresh_of(kind: &str) -> &'static str {
    match kind {
        "hash" => "(hash-insert (hash 0 10 1 11) 2 12)",
        "set" => "(hashset-insert (hashset 1 2) 3)",
        "vec" => "(immutable-vector-push (immutable-vector 1 2) 3)",
        "list" => "(cons 1 (list 2 3))",
        _ => "(string-append \"ab\" \"c\")",
    }
}

fn query(kind: &str, var: &str) -> String {
    match kind {
        "hash" => format!("(map (lambda (k) (if (hash-contains? {v} k) (hash-ref {v} k) -1)) '(0 1 2 3 4 5))", v = var),
        "set" => format!("(map (lambda (k) (if (hashset-contains? {v} k) 1 0)) '(0 1 2 3 4 5 6 7))", v = var),
        "vec" => format!("(immutable-vector->list {})", var),
        "list" => var.to_string(),
        _ => var.to_string(),
    }
}

fn render(v: &V) -> String {
    let list = |xs: Vec<String>| format!("({})", xs.join(" "));
    match v {
        V::Hash(m) => list((0..6).map(|k| m.get(&k).copied().unwrap_or(-1).to_string()).collect()),
        V::Set(s) => list((0..8).map(|k| if s.contains(&k) { "1".to_string() } else { "0".to_string() }).collect()),
        V::Vec(x) | V::List(x) => list(x.iter().map(|i| i.to_string()).collect()),
        V::Str(s) => format!("\"{}\"", s),
    }
}

/// apply op (name, a, b) to a model value: returns (source text given the
/// source variable, new model value)
fn apply(kind: &str, op: &Value, src: &str, v: &V) -> (String, V) {
    let name = op[0].as_str().unwrap_or("");
    let a = op[1].as_i64().unwrap_or(0);
    let b = op[2].as_i64().unwrap_or(0);
    match (kind, v) {
        ("hash", V::Hash(m)) => match name {
            "remove" => {
                let mut n = m.clone();
                n.remove(&(a % 6));
                (format!("(hash-remove {} {})", src, a % 6), V::Hash(n))
            }
            "union" => {
                // hash-union keeps the left value on conflicts
                let mut n = m.clone();
                n.entry(a % 6).or_insert(b);
                (format!("(hash-union {} (hash {} {}))", src, a % 6, b), V::Hash(n))
            }
            _ => {
                let mut n = m.clone();
                n.insert(a % 6, b);
                (format!("(hash-insert {} {} {})", src, a % 6, b), V::Hash(n))
            }
        },
        ("set", V::Set(s)) => {
            let mut n = s.clone();
            n.insert(a % 8);
            (format!("(hashset-insert {} {})", src, a % 8), V::Set(n))
        }
        ("vec", V::Vec(x)) => match name {
            "remove" if !x.is_empty() => {
                let mut n = x.clone();
                n.remove(0);
                (format!("(immutable-vector-rest {})", src), V::Vec(n))
            }
            "union" if !x.is_empty() => {
                let mut n = x.clone();
                let i = (a as usize) % n.len();
                n[i] = b;
                (format!("(immutable-vector-set {} {} {})", src, i, b), V::Vec(n))
            }
            "front" => {
                let mut n = x.clone();
                n.insert(0, b);
                (format!("(vector-push-front {} {})", src, b), V::Vec(n))
            }
            _ => {
                let mut n = x.clone();
                n.push(b);
                (format!("(immutable-vector-push {} {})", src, b), V::Vec(n))
            }
        },
        ("list", V::List(x)) => match name {
            "remove" if !x.is_empty() => (format!("(list-tail {} 1)", src), V::List(x[1..].to_vec())),
            "union" => {
                let mut n = x.clone();
                n.push(b);
                (format!("(append {} (list {}))", src, b), V::List(n))
            }
            "front" => {
                let mut n = x.clone();
                n.reverse();
                (format!("(reverse {})", src), V::List(n))
            }
            _ => {
                let mut n = x.clone();
                n.insert(0, b);
                (format!("(cons {} {})", b, src), V::List(n))
            }
        },
        (_, V::Str(s)) => {
            let c = (b'a' + (b.rem_euclid(26)) as u8) as char;
            (format!("(string-append {} \"{}\")", src, c), V::Str(format!("{}{}", s, c)))
        }
        _ => (src.to_string(), v.clone()),
    }
}

fn gen_workload(rng: &mut Rng, thorough: bool) -> Value {
    let jit = rng.chance(1, 2);
    let nthreads = rng.range(1, 4) as usize; // including main
    let mut kinds: Vec<&str> = KINDS.to_vec();
    rng.shuffle(&mut kinds);
    kinds.truncate(rng.range(1, 3) as usize);
    let mut threads = Vec::new();
    for _ in 0..nthreads {
        let n = rng.range(2, if thorough { 14 } else { 8 });
        let mut ops = Vec::new();
        for i in 0..n {
            let kind = *rng.pick(&kinds);
            let name = *rng.pick(&["insert", "insert", "remove", "union", "front"]);
            // source: -1 = the shared base, otherwise an earlier value of this thread
            let from_recent = rng.chance(1, 2);
            let keep = rng.chance(1, 2);
            ops.push(json!({"kind": kind, "op": [name, rng.below(8), 20 + i as i64 + rng.below(50) as i64], "recent": from_recent, "keep": keep, "pick": rng.below(1000), "wrap": if rng.chance(1, 2) { rng.range(1, 13) } else { 0 }}));
        }
        threads.push(json!({"ops": ops}));
    }
    let share = *rng.pick(&["global", "global", "closure", "box"]);
    // hand-offs: main builds a value, other threads take their own reference to
    // it, main gives up every reference but one and updates (or drops) that one
    let mut handoffs = Vec::new();
    for i in 0..rng.below(3) {
        handoffs.push(json!({
            "kind": *rng.pick(KINDS),
            "op": [*rng.pick(&["insert", "insert", "remove", "union", "front"]), rng.below(8), 70 + i as i64 + rng.below(20) as i64],
            "clones": rng.range(1, 2),
            "drop": rng.chance(1, 4),
            "wrap": if rng.chance(1, 3) { rng.range(1, 13) } else { 0 },
        }));
    }
    json!({"handoffs": handoffs, "jit": jit, "gc": [*rng.pick(&[0u64, 0, 1]), *rng.pick(&[4u64, 16])], "kinds": kinds, "threads": threads, "share": share})
}

/// The update sits in some syntactic context that decides nothing (the branch
/// with the update is always the one taken) but gives the last-use analysis
/// something to get wrong: the source variable is mentioned in the other
/// branch, or is read again later in the same function.
fn wrap(kind: u64, update: &str, source: &str) -> String {
    // rt-one / rt-zero / rt-true are globals whose values the compiler cannot know
    match kind {
        1 => format!("(let ((tt rt-one)) (if (> tt 0) {} {}))", update, source),
        2 => format!("(let ((tt rt-zero)) (if (> tt 0) {} {}))", source, update),
        3 => format!("(if (> rt-one 0) {} {})", update, source),
        4 => format!("(cond ((> rt-zero 0) {}) (else {}))", source, update),
        5 => format!("((lambda (tt) (if tt {} {})) rt-true)", update, source),
        6 => format!("(let ((tt rt-one) (uu 2)) (if (> uu tt) {} {}))", update, source),
        7 => format!("(begin rt-zero {})", update),
        8 => format!("(let lp ((i rt-zero)) (if (< i 1) (lp (+ i 1)) {}))", update),
        9 => format!("(and rt-true {})", update),
        10 => format!("(car (list {}))", update),
        11 => format!("(let ((tt rt-one)) (let ((uu 2)) (if (> uu tt) {} {})))", update, source),
        12 => format!("(let ((tt rt-one)) (when (> tt 0) {}))", update),
        13 => format!("(or (> rt-zero 0) {})", update),
        _ => update.to_string(),
    }
}

struct Built {
    src: String,
    expect: String,
}

fn build(w: &Value) -> Built {
    let kinds: Vec<String> = w["kinds"].as_array().unwrap().iter().map(|k| k.as_str().unwrap().to_string()).collect();
    let share = w["share"].as_str().unwrap_or("global");
    let mut src = String::from("(define rt-one (unbox (box 1)))\n(define rt-zero (unbox (box 0)))\n(define rt-true (unbox (box #t)))\n");
    let mut bases: BTreeMap<String, V> = BTreeMap::new();
    for k in &kinds {
        let (text, v) = base_of(k);
        match share {
            "box" => src.push_str(&format!("(define base-{}-box (box {}))\n", k, text)),
            _ => src.push_str(&format!("(define base-{} {})\n", k, text)),
        }
        bases.insert(k.clone(), v);
    }
    let base_ref = |k: &str| -> String {
        match share {
            "box" => format!("(unbox base-{}-box)", k),
            _ => format!("base-{}", k),
        }
    };
    let threads = w["threads"].as_array().cloned().unwrap_or_default();
    let mut expects: Vec<String> = Vec::new();
    for (t, th) in threads.iter().enumerate() {
        // per kind: list of (var name, model, uses so far) for values of this thread
        let mut vals: BTreeMap<String, Vec<(String, V, bool)>> = BTreeMap::new();
        let mut bindings = String::new();
        let mut kept: Vec<(String, String, V)> = Vec::new(); // (kind, var, model)
        for (i, op) in th["ops"].as_array().into_iter().flatten().enumerate() {
            let kind = op["kind"].as_str().unwrap().to_string();
            if !kinds.contains(&kind) {
                continue;
            }
            let list = vals.entry(kind.clone()).or_default();
            // choose the source: the most recent unconsumed value of this kind, an
            // older kept value, or the shared base
            let mut source: Option<(String, V)> = None;
            if op["recent"].as_bool().unwrap_or(false) {
                if let Some(last) = list.last_mut() {
                    if !last.2 || true {
                        source = Some((last.0.clone(), last.1.clone()));
                        last.2 = true;
                    }
                }
            } else if !list.is_empty() {
                let idx = (op["pick"].as_u64().unwrap_or(0) as usize) % (list.len() + 1);
                if idx < list.len() {
                    source = Some((list[idx].0.clone(), list[idx].1.clone()));
                    list[idx].2 = true;
                }
            }
            let (svar, smodel) = source.unwrap_or_else(|| (base_ref(&kind), bases[&kind].clone()));
            let var = format!("v{}x{}", t, i);
            let (expr, model) = apply(&kind, &op["op"], &svar, &smodel);
            let expr = wrap(op["wrap"].as_u64().unwrap_or(0), &expr, &svar);
            bindings.push_str(&format!("({} {})", var, expr));
            if op["keep"].as_bool().unwrap_or(false) {
                kept.push((kind.clone(), var.clone(), model.clone()));
            }
            list.push((var, model, false));
        }
        // queries: kept values, then the shared bases as seen by this thread
        let mut qs: Vec<String> = Vec::new();
        let mut es: Vec<String> = Vec::new();
        for (kind, var, model) in &kept {
            qs.push(query(kind, var));
            es.push(render(model));
        }
        for k in &kinds {
            qs.push(query(k, &base_ref(k)));
            es.push(render(&bases[k]));
        }
        let body = format!("(let* ({}) (list {}))", bindings, qs.join(" "));
        match share {
            "closure" => {
                // the bases reach the thread through a closure capture
                let params: Vec<String> = kinds.iter().map(|k| format!("cap-{}", k)).collect();
                let mut b2 = body.clone();
                for k in &kinds {
                    b2 = b2.replace(&format!("base-{}", k), &format!("cap-{}", k));
                }
                src.push_str(&format!(
                    "(define body-{t} ((lambda ({ps}) (lambda () {b})) {args}))\n",
                    t = t,
                    ps = params.join(" "),
                    b = b2,
                    args = kinds.iter().map(|k| format!("base-{}", k)).collect::<Vec<_>>().join(" ")
                ));
            }
            _ => src.push_str(&format!("(define (body-{}) {})\n", t, body)),
        }
        expects.push(format!("({})", es.join(" ")));
    }
    let n = threads.len();
    for t in 1..n {
        src.push_str(&format!("(define t{t} (spawn-native-thread (lambda () (body-{t}))))\n", t = t));
    }
    src.push_str("(define main-result (body-0))\n");
    let mut joins = String::new();
    for t in 1..n {
        joins.push_str(&format!(" (thread-join! t{})", t));
    }
    let mut finals: Vec<String> = Vec::new();
    let mut fexp: Vec<String> = Vec::new();
    for k in &kinds {
        finals.push(query(k, &base_ref(k)));
        fexp.push(render(&bases[k]));
    }
    let mut hcalls: Vec<String> = Vec::new();
    let mut hexp: Vec<String> = Vec::new();
    let handoffs = w["handoffs"].as_array().cloned().unwrap_or_default();
    if !handoffs.is_empty() {
        src.push_str("(define hbox (box #f))\n(define h-ack (channels/new))\n(define h-go (channels/new))\n");
    }
    for (i, h) in handoffs.iter().enumerate() {
        let kind = h["kind"].as_str().unwrap_or("hash");
        let clones = h["clones"].as_u64().unwrap_or(1).clamp(1, 2) as usize;
        let (_, fresh_model) = base_of(kind);
        let taker = format!(
            "(spawn-native-thread (lambda () (let ((mine (unbox hbox))) (channel/send (channels-sender h-ack) 1) (channel/recv (channels-receiver h-go)) {})))",
            query(kind, "mine")
        );
        let takers: Vec<String> = (0..clones).map(|c| format!("(tk{} {})", c, taker)).collect();
        let acks: String = (0..clones).map(|_| "(channel/recv (channels-receiver h-ack))".to_string()).collect::<Vec<_>>().join(" ");
        let gos: String = (0..clones).map(|_| "(channel/send (channels-sender h-go) 1)".to_string()).collect::<Vec<_>>().join(" ");
        let joins_h: String = (0..clones).map(|c| format!("(thread-join! tk{})", c)).collect::<Vec<_>>().join(" ");
        if h["drop"].as_bool().unwrap_or(false) {
            // main's only reference goes away without an update
            src.push_str(&format!(
                "(define (handoff-{i}-a) (let ((hv {fresh})) (set-box! hbox hv) (let* ({takers}) {acks} (set-box! hbox #f) (list {tks}))))\n(define (handoff-{i}) (let ((ts (handoff-{i}-a))) {gos} (map thread-join! ts)))\n",
                i = i,
                fresh = fresh_of(kind),
                takers = takers.join(" "),
                acks = acks,
                tks = (0..clones).map(|c| format!("tk{}", c)).collect::<Vec<_>>().join(" "),
                gos = gos
            ));
            hexp.push(format!("({})", (0..clones).map(|_| render(&fresh_model)).collect::<Vec<_>>().join(" ")));
        } else {
            let (upd, upd_model) = apply(kind, &h["op"], "hv", &fresh_model);
            let upd = wrap(h["wrap"].as_u64().unwrap_or(0), &upd, "hv");
            src.push_str(&format!(
                "(define (handoff-{i}) (let ((hv {fresh})) (set-box! hbox hv) (let* ({takers}) {acks} (set-box! hbox #f) (let ((hu {upd})) {gos} (list {q} {joins})))))\n",
                i = i,
                fresh = fresh_of(kind),
                takers = takers.join(" "),
                acks = acks,
                upd = upd,
                gos = gos,
                q = query(kind, "hu"),
                joins = joins_h
            ));
            let mut parts = vec![render(&upd_model)];
            for _ in 0..clones {
                parts.push(render(&fresh_model));
            }
            hexp.push(format!("({})", parts.join(" ")));
        }
        hcalls.push(format!("(handoff-{})", i));
    }
    src.push_str(&format!("(list main-result (list{}) (list {}) (list {}))\n", joins, finals.join(" "), hcalls.join(" ")));
    let expect = format!("({} ({}) ({}) ({}))", expects[0], expects[1..].join(" "), fexp.join(" "), hexp.join(" "));
    Built { src, expect }
}

fn on_stop(s: sched::Stop) -> ! {
    match s {
        sched::Stop::Deadlock(d) => report::violation("C16/deadlock/in-immutable-values-scenario", d),
        sched::Stop::Budget(d) => report::harness_error(format!("step budget exceeded: {}", d)),
        sched::Stop::ReplayDiverged(d) => report::stop_is_harness_error(sched::Stop::ReplayDiverged(d)),
    }
}

impl Scenario for C03 {
    fn name(&self) -> &'static str {
        "c03-immutable"
    }
    fn property(&self) -> &'static str {
        "C03"
    }
    fn setup(&self) {
        vmh::build_prototypes(true, true);
    }
    fn default_runs(&self, thorough: bool) -> u64 {
        if thorough { 200_000 } else { 3_000 }
    }
    fn timeout_ms(&self) -> u64 {
        60_000
    }

    fn child(&self, spec: &Spec) {
        let mut wrng = Rng::derive(spec.seed, spec.index, 1);
        let w = if spec.overrides.is_null() { gen_workload(&mut wrng, spec.tier_thorough) } else { spec.overrides.clone() };
        report::set_workload(w.clone());
        if spec.gen_only {
            return;
        }
        let built = build(&w);
        let jit = w["jit"].as_bool().unwrap_or(true);
        let tier = if jit { "jit" } else { "nojit" };
        let mut faults = vmh::default_faults(spec.seed, spec.index);
        faults.gc_num = w["gc"][0].as_u64().unwrap_or(0);
        faults.gc_den = w["gc"][1].as_u64().unwrap_or(16);
        faults.heap_chunk = 256;
        let mut engine = vmh::start(
            spec,
            vmh::VmOptions {
                property: "C03",
                jit,
                faults,
                yield_at_dispatch: false,
                max_steps: 3_000_000,
                expected_steps: 10_000,
                on_stop,
                panic_class: |m| vmh::panic_signature("C03", m),
            },
        );
        vmh::set_stale_is_violation(false);
        vmh::set_context(tier);
        vmh::set_yield_at_dispatch(true);
        let res = vmh::eval(&mut engine, &built.src);
        vmh::set_yield_at_dispatch(false);
        let nthreads = w["threads"].as_array().map(|a| a.len()).unwrap_or(1);
        report::set_nontrivial(true);
        if nthreads >= 2 {
            report::probe("run.with-2-or-more-threads");
        }
        match res {
            Ok(v) => {
                let got = v.last().cloned().unwrap_or_default();
                if got != built.expect {
                    report::violation(
                        &format!("C03/{}/value-differs-from-snapshot-model", tier),
                        format!("program evaluated to {} but the snapshot model says {}\n{}", got, built.expect, built.src),
                    );
                }
            }
            Err(e) => {
                let short: String = e.chars().take(60).map(|c| if c.is_ascii_digit() { '#' } else { c }).collect();
                report::violation(
                    &format!("C03/{}/unexpected-error/{}", tier, short.replace(' ', "-")),
                    format!("the program failed: {}\n{}", e, built.src),
                );
            }
        }
    }

    fn shrink(&self, w: &Value) -> Vec<Value> {
        let mut out = Vec::new();
        let n = w["threads"].as_array().map(|a| a.len()).unwrap_or(0);
        for t in (1..n).rev() {
            let mut c = w.clone();
            c["threads"].as_array_mut().unwrap().remove(t);
            out.push(c);
        }
        for t in 0..n {
            let m = w["threads"][t]["ops"].as_array().map(|a| a.len()).unwrap_or(0);
            for i in (0..m).rev() {
                let mut c = w.clone();
                c["threads"][t]["ops"].as_array_mut().unwrap().remove(i);
                out.push(c);
            }
        }
        out
    }

    fn rule(&self) -> String {
        "each evaluation = one forked run: 1-3 script threads plus main share base values of 1-3 kinds (hash map, hash set, immutable vector, list, string) through globals, closure captures or boxes; each thread applies a seeded chain of 2-14 functional updates (insert / remove / union / push / push-front / set / rest / cons / append / list-tail / reverse / string-append), half of them inside one of 13 syntactic contexts (let-bodied if with the source in the other arm, cond, when, and/or, named let, immediately applied lambda, ...) whose source is the shared base, the thread's most recent value (used once: a last use that can be moved and updated in place) or an older kept value; kept values and the bases are queried by every thread and by main at the end; instruction-level interleaving under the token scheduler, forced collections at rate {0,1/16,1/4}, JIT on/off; oracle: snapshot model of every kept value; non-trivial = every run".into()
    }
    fn assumptions(&self) -> Vec<String> {
        vec![
            "the reference-count sub-operations of steel-rc are not interleaved here (C05 does that); threads interleave at instruction and handshake granularity".into(),
            "order-insensitive queries are used for hash maps and sets".into(),
        ]
    }
    fn components(&self) -> Value {
        json!({"real": ["persistent collections and their in-place fast paths", "move-on-last-use analysis", "VM", "JIT (per run on/off)", "steel-rc", "threads"],
               "simulated": ["OS scheduler", "collection timing"]})
    }
}
