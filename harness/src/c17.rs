//! C17 — a running script can always be interrupted.
//!
//! For every long-running program shape, in both tiers, the interrupt request
//! is raised at dispatch step k for every k of a window (enumeration of arrival
//! points). Oracle: `run` returns an error within a bounded number of further
//! dispatch steps; after `resume()` the engine evaluates a probe correctly and
//! its stacks are empty. A run that never returns is caught by the parent's
//! real-time watchdog and is a violation (the program shapes do not terminate
//! on their own).

use crate::report;
use crate::runner::{Scenario, Spec};
use crate::vmh;
use serde_json::{json, Value};
use std::sync::atomic::Ordering;

pub struct C17;

const PRELUDE: &str = r#"
(define (spin) (spin))
(define (ping) (pong))
(define (pong) (ping))
(define (count-up n) (count-up (+ n 1)))
(define (spin-if n) (if (< n 0) n (spin-if (+ n 1))))
(define (spin-if2 n m) (if (> (car (list n)) m) n (spin-if2 n (+ m 1))))
(define (deep n) (+ 1 (deep (+ n 1))))
(define (prim-loop) (car (list 1 2)) (vector-ref (vector 1 2) 0) (prim-loop))
(define (alloc-loop acc) (alloc-loop (cons (box 1) '())))
(define (loop-n n) (if (= n 0) 0 (loop-n (- n 1))))
(define (forever-list) (let lp ((i 0)) (lp (+ i 1))))
(define (fib n) (if (< n 2) n (+ (fib (- n 1)) (fib (- n 2)))))
(define (ack m n) (cond ((= m 0) (+ n 1)) ((= n 0) (ack (- m 1) 1)) (else (ack (- m 1) (ack m (- n 1))))))
(require "c17mod")
(define saved #f)
(define base-a 10)
(define (base-f x) (+ x base-a))
"#;

const MODULE: &str = "(provide mspin mping)\n(define (mspin x) (mspin (+ x 1)))\n(define (mping x) (mpong (+ x 1)))\n(define (mpong x) (mping x))\n";

/// Shapes that are known to be expensive when they go wrong get fewer arrival
/// points: every STRIDE-th step of the window.
const SPARSE: &[&str] = &["conditional-self-tail-loop", "conditional-self-tail-loop-with-primitive-test", "tree-recursion", "ackermann", "module-self-tail-loop", "module-mutual-tail-loop", "transduce-into-count", "transduce-into-last", "transduce-into-nth"];
const STRIDE: u64 = 24;

/// (name, program)
pub const SHAPES: &[(&str, &str)] = &[
    ("tree-recursion", "(fib 70)"),
    ("ackermann", "(ack 4 3)"),
    ("module-self-tail-loop", "(mspin 0)"),
    ("module-mutual-tail-loop", "(mping 0)"),
    ("transduce-into-count", "(transduce (range 0 400) (mapping (lambda (x) (loop-n 2000))) (into-count))"),
    ("transduce-into-last", "(transduce (range 0 400) (mapping (lambda (x) (loop-n 2000))) (into-last))"),
    ("transduce-into-nth", "(transduce (range 0 400) (mapping (lambda (x) (loop-n 2000))) (into-nth 399))"),
    ("self-tail-loop", "(spin)"),
    ("mutual-tail-loop", "(ping)"),
    ("tail-loop-with-arg", "(count-up 0)"),
    ("conditional-self-tail-loop", "(spin-if 0)"),
    ("conditional-self-tail-loop-with-primitive-test", "(spin-if2 0 1)"),
    ("non-tail-recursion", "(deep 0)"),
    ("primitive-only-loop", "(prim-loop)"),
    ("allocating-loop", "(alloc-loop '())"),
    ("named-let-loop", "(let lp ((i 0)) (lp (+ i 1)))"),
    ("loop-in-map-callback", "(map (lambda (x) (spin)) (list 1 2 3))"),
    ("map-over-long-work", "(let lp () (map (lambda (x) (loop-n 50)) (list 1 2 3)) (lp))"),
    ("loop-in-transduce", "(transduce (list 1 2 3) (mapping (lambda (x) (spin))) (into-list))"),
    ("transduce-forever", "(let lp () (transduce (range 0 20) (mapping (lambda (x) (+ x 1))) (into-sum)) (lp))"),
    ("loop-in-for-each", "(for-each (lambda (x) (ping)) (list 1 2))"),
    ("loop-in-fold", "(foldl (lambda (x acc) (spin)) 0 (list 1 2 3))"),
    ("loop-in-handler", "(with-handler (lambda (e) (spin)) (error \"x\"))"),
    ("loop-under-handler", "(with-handler (lambda (e) 'caught) (spin))"),
    ("loop-in-wind-before", "(dynamic-wind (lambda () (spin)) (lambda () 1) (lambda () 2))"),
    ("loop-in-wind-body", "(dynamic-wind (lambda () 0) (lambda () (ping)) (lambda () 2))"),
    ("loop-in-wind-after", "(dynamic-wind (lambda () 0) (lambda () 1) (lambda () (spin)))"),
    ("continuation-generator", "(let ((n 0)) (call/cc (lambda (k) (set! saved k))) (set! n (+ n 1)) (saved n))"),
    ("while-loop", "(let ((i 0)) (while #t (set! i (+ i 1))))"),
    ("loop-in-apply", "(apply (lambda (a b) (spin)) (list 1 2))"),
    ("loop-in-sort-comparator", "(sort (list 3 1 2) (lambda (a b) (spin)))"),
    ("loop-in-struct-method", "(begin (struct pt (x)) (let lp ((p (pt 1))) (lp (pt (+ 1 (pt-x p))))))"),
    ("hash-update-loop", "(let lp ((h (hash)) (i 0)) (lp (hash-insert h (modulo i 8) i) (+ i 1)))"),
    ("string-building-loop", "(let lp ((s \"\") (i 0)) (lp (if (> (string-length s) 50) \"\" (string-append s \"x\")) (+ i 1)))"),
];

const WINDOW: u64 = 240;
const BOUND: u64 = 1000;

/// every (shape, tier, arrival step) of one pass over the window
fn plan() -> Vec<(usize, bool, u64)> {
    let mut p = Vec::new();
    for (si, sh) in SHAPES.iter().enumerate() {
        let stride = if SPARSE.contains(&sh.0) { STRIDE } else { 1 };
        let mut k = 0;
        while k < WINDOW {
            p.push((si, false, k));
            p.push((si, true, k));
            k += stride;
        }
    }
    p
}

impl Scenario for C17 {
    fn name(&self) -> &'static str {
        "c17-interrupt"
    }
    fn property(&self) -> &'static str {
        "C17"
    }
    fn setup(&self) {
        vmh::build_prototypes(true, true);
    }
    fn default_runs(&self, thorough: bool) -> u64 {
        let full = plan().len() as u64;
        if thorough { full * 4 } else { full }
    }
    fn timeout_ms(&self) -> u64 {
        12_000
    }
    fn hang_signature(&self) -> Option<String> {
        Some("C17/evaluation-did-not-stop".into())
    }
    fn refine_signature(&self, signature: &str, w: &Value) -> Option<String> {
        if signature == "C17/evaluation-did-not-stop" {
            let tier = if w["jit"].as_bool().unwrap_or(false) { "jit" } else { "nojit" };
            return Some(format!("C17/{}/{}/evaluation-did-not-stop", tier, w["name"].as_str().unwrap_or("?")));
        }
        None
    }

    fn child(&self, spec: &Spec) {
        let (shape, jit, k) = if spec.overrides.is_null() {
            let p = plan();
            let (shape, jit, k) = p[(spec.index % p.len() as u64) as usize];
            // later passes (thorough) move the window further out
            let pass = spec.index / p.len() as u64;
            (shape, jit, k + pass * WINDOW)
        } else {
            (
                spec.overrides["shape"].as_u64().unwrap_or(0) as usize,
                spec.overrides["jit"].as_bool().unwrap_or(false),
                spec.overrides["k"].as_u64().unwrap_or(0),
            )
        };
        let w = json!({"shape": shape, "name": SHAPES[shape].0, "jit": jit, "k": k});
        report::set_workload(w.clone());
        if spec.gen_only {
            return;
        }
        let mut faults = vmh::default_faults(spec.seed, spec.index);
        faults.heap_chunk = 256;
        let mut engine = vmh::start(
            spec,
            vmh::VmOptions {
                property: "C17",
                jit,
                faults,
                yield_at_dispatch: false,
                max_steps: u64::MAX,
                expected_steps: 1000,
                on_stop: report::stop_is_harness_error,
                panic_class: |m| vmh::panic_signature("C17", m),
            },
        );
        let tier = if jit { "jit" } else { "nojit" };
        vmh::set_context(&format!("{}/{}", tier, SHAPES[shape].0));
        engine.register_steel_module("c17mod".to_string(), MODULE.to_string());
        if let Err(e) = vmh::eval(&mut engine, PRELUDE) {
            report::harness_error(format!("prelude failed: {}", e));
        }
        vmh::MAIN_DISPATCHES.store(0, Ordering::SeqCst);
        vmh::set_interrupt_at(Some(k));
        let res = vmh::eval(&mut engine, SHAPES[shape].1);
        let fired_at = vmh::INTERRUPT_FIRED_AT.load(Ordering::SeqCst);
        let end = vmh::MAIN_DISPATCHES.load(Ordering::SeqCst);
        vmh::set_interrupt_at(None);
        report::set_nontrivial(true);
        if fired_at == u64::MAX {
            // the program ended before dispatch step k: only possible by an error of its own
            match res {
                Err(e) => {
                    report::probe("ended-by-own-error-before-k");
                    report::set_extra("own_error", json!(e.chars().take(80).collect::<String>()));
                }
                Ok(v) => report::violation(
                    &format!("C17/{}/{}/non-terminating-shape-returned", tier, SHAPES[shape].0),
                    format!("{} returned {:?} before step {}", SHAPES[shape].1, v, k),
                ),
            }
        } else {
            report::fault("interrupt-delivered");
            let lag = end.saturating_sub(fired_at);
            report::set_extra("steps_after_interrupt", json!(lag));
            match res {
                Ok(v) => report::violation(
                    &format!("C17/{}/{}/returned-ok-after-interrupt", tier, SHAPES[shape].0),
                    format!("interrupt at step {} but the evaluation returned {:?}", k, v),
                ),
                Err(_) => {
                    if lag > BOUND {
                        report::violation(
                            &format!("C17/{}/{}/stopped-too-late", tier, SHAPES[shape].0),
                            format!("interrupt at step {}; the evaluation ran {} more dispatch steps (bound {})", k, lag, BOUND),
                        );
                    }
                }
            }
        }
        // resume and use the engine normally
        engine.get_thread_state_controller().resume();
        let st = engine.verif_stack_state();
        if st.stack != 0 || st.frames != 0 {
            report::violation(
                &format!("C17/{}/{}/stack-residue", tier, SHAPES[shape].0),
                format!("stacks not empty after the interrupted evaluation: {:?}", st),
            );
        }
        match vmh::eval(&mut engine, "(define probe-x 5)\n(list (+ probe-x 1) (base-f 1) (loop-n 10))") {
            Ok(v) if v.last().map(|s| s.as_str()) == Some("(6 11 0)") => {}
            other => report::violation(
                &format!("C17/{}/{}/engine-unusable-after-resume", tier, SHAPES[shape].0),
                format!("probe after resume gave {:?}", other),
            ),
        }
        // and it can be interrupted again
        vmh::MAIN_DISPATCHES.store(0, Ordering::SeqCst);
        vmh::set_interrupt_at(Some(k % 37));
        let res2 = vmh::eval(&mut engine, "(count-up 0)");
        let fired2 = vmh::INTERRUPT_FIRED_AT.load(Ordering::SeqCst);
        vmh::set_interrupt_at(None);
        engine.get_thread_state_controller().resume();
        if fired2 != u64::MAX && res2.is_ok() {
            report::violation(
                &format!("C17/{}/{}/second-interrupt-ignored", tier, SHAPES[shape].0),
                "a second interrupt after resume did not stop the evaluation".to_string(),
            );
        }
    }

    fn rule(&self) -> String {
        format!("fault enumeration: {} long-running program shapes (self/mutual/argument tail loops, non-tail recursion, primitive-only and allocating loops, named let, loops inside map/transduce/for-each/foldl/apply/sort callbacks, loops in and under handlers, in each dynamic-wind thunk, continuation generator, while, struct/hash/string loops, and - at every 24th step only - tree recursion, Ackermann, self and mutual tail loops provided by a required module, transduce into a counting / last-element / nth-element reducer with long-running callbacks) x 2 tiers x an interrupt raised at every dispatch step k in 0..{} (thorough: further windows); oracle: Err within {} further dispatch steps, then resume, stack check, probe, and a second interrupt; a run that does not end in real time is a violation; non-trivial = every run", SHAPES.len(), WINDOW, BOUND)
    }
    fn assumptions(&self) -> Vec<String> {
        vec![
            "the interrupt is raised from the dispatch hook of the evaluating thread (the request itself is the public ThreadStateController::interrupt); native code that never re-enters the dispatch loop is caught by the real-time watchdog only".into(),
            "the timer thread of InterruptHandler::run_with_timeout is not simulated".into(),
        ]
    }
    fn components(&self) -> Value {
        json!({"real": ["VM dispatch loop and interrupt poll", "JIT (both tiers)", "library procedures with callbacks", "handlers, dynamic-wind, continuations"],
               "simulated": ["arrival time of the interrupt request (every dispatch step of a window)"]})
    }
}
