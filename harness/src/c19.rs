//! C19 — unreachable mutable storage, including cycles, is eventually reclaimed.
//!
//! Programs with a bounded live set create garbage of several kinds for many
//! blocks; collections are forced at PRNG points and requested at the end of
//! every block. Oracle: after a full collection at a quiescent point the number
//! of live slots equals the warm-up baseline plus the model's change of the
//! live set (exact), the free-slot accounting agrees with the mark bits, the
//! slot count stays bounded, weak boxes report cleared targets.

use crate::report;
use crate::rng::Rng;
use crate::runner::{Scenario, Spec};
use crate::vmh;
use serde_json::{json, Value};
use std::sync::{Arc, Mutex};
use steel::rvals::Custom;
use steel::steel_vm::register_fn::RegisterFn;

pub struct C19;

/// A host value that garbage carries around: every live copy holds a clone of
/// one master `Arc`, so the number of copies that still exist anywhere in the
/// runtime is `strong_count - 1`, whatever the slot bookkeeping says.
#[derive(Clone)]
struct Tracker(#[allow(dead_code)] Arc<()>);
impl Custom for Tracker {}

static MASTER: Mutex<Option<Arc<()>>> = Mutex::new(None);

fn make_tracker() -> Tracker {
    Tracker(MASTER.lock().unwrap().as_ref().expect("master").clone())
}

fn trackers_alive() -> usize {
    MASTER.lock().unwrap().as_ref().map(|m| Arc::strong_count(m) - 1).unwrap_or(0)
}

const PRELUDE: &str = r#"
(struct node (next val) #:mutable)
(define keep '())
(define saved-k #f)
(define (g-acyclic n) (let lp ((i 0)) (when (< i n) (box (box i)) (mutable-vector i (box i)) (lp (+ i 1)))))
(define (g-self n) (let lp ((i 0)) (when (< i n) (let ((b (box 0))) (set-box! b b)) (let ((v (mutable-vector 0))) (vector-set! v 0 v)) (lp (+ i 1)))))
(define (make-ring k)
  (let ((first (box 0)))
    (let lp ((i 1) (prev first))
      (if (= i k)
          (begin (set-box! prev first) first)
          (let ((b (box 0))) (set-box! prev b) (lp (+ i 1) b))))))
(define (g-ring n k) (let lp ((i 0)) (when (< i n) (make-ring k) (lp (+ i 1)))))
(define (make-mixed-ring)
  (let ((b (box 0)) (v (mutable-vector 0 0)) (s (node 0 0)))
    (set-box! b v)
    (vector-set! v 0 s)
    (set-node-next! s b)
    (set-node-val! s (box 7))
    b))
(define (g-mixed n) (let lp ((i 0)) (when (< i n) (make-mixed-ring) (lp (+ i 1)))))
(define (make-self-closure)
  (let ((f #f) (payload (box 1)))
    (set! f (lambda () (unbox payload) f))
    f))
(define (g-closure n) (let lp ((i 0)) (when (< i n) (make-self-closure) (lp (+ i 1)))))
(define (g-continuation n)
  (let lp ((i 0))
    (when (< i n)
      (let ((b (box i)) (v (mutable-vector i)))
        (call/cc (lambda (k) (set! saved-k k)))
        (unbox b))
      (lp (+ i 1))))
  (set! saved-k #f))
(define (g-handler n)
  (let lp ((i 0))
    (when (< i n)
      (with-handler (lambda (e) (box 1)) (let ((b (box i))) (error "x")))
      (lp (+ i 1)))))
(define (g-t-acyclic n) (let lp ((i 0)) (when (< i n) (box (list (make-tracker) (box (make-tracker)))) (lp (+ i 1)))))
(define (make-t-ring k)
  (let ((first (box 0)))
    (let lp ((i 1) (prev first))
      (if (= i k)
          (begin (set-box! prev (cons (make-tracker) first)) first)
          (let ((b (box 0))) (set-box! prev (cons (make-tracker) b)) (lp (+ i 1) b))))))
(define (g-t-ring n k) (let lp ((i 0)) (when (< i n) (make-t-ring k) (lp (+ i 1)))))
(define (make-t-closure)
  (let ((f #f) (payload (box (make-tracker))))
    (set! f (lambda () (unbox payload) f))
    f))
(define (g-t-closure n) (let lp ((i 0)) (when (< i n) (make-t-closure) (lp (+ i 1)))))
(define (g-t-thread n k) (thread-join! (spawn-native-thread (lambda () (g-t-ring n k) (g-t-acyclic n) (g-t-closure n) 0))))
(define (g-t-thread-result n k) (let lp ((i 0)) (when (< i n) (thread-join! (spawn-native-thread (lambda () (make-t-ring k)))) (lp (+ i 1)))))
(define (g-t-handoff n)
  (let lp ((i 0))
    (when (< i n)
      (let* ((r (list (make-tracker) (list (make-tracker)))) (bx (box r)))
        (thread-join! (spawn-native-thread (lambda () (let ((n (length (unbox bx)))) (set-box! bx #f) n))))
        (box i) (mutable-vector i)
        (length r))
      (lp (+ i 1)))))
(define (g-t-channel n) (let ((ch (channels/new))) (let lp ((i 0)) (when (< i n) (channel/send (channels-sender ch) (box (make-tracker))) (lp (+ i 1))))))
(define (keep-add! x) (set! keep (cons (box x) keep)))
(define (keep-drop!) (when (not (null? keep)) (set! keep (cdr keep))))
(define (keep-sum) (apply + (map unbox keep)))
"#;

const KINDS: &[&str] = &[
    "acyclic", "self", "ring", "mixed", "closure", "continuation", "handler", "shadowed", "t-acyclic", "t-ring", "t-closure", "t-rooted", "t-pair", "t-thread", "t-thread-result", "t-channel", "t-handoff",
];

fn gen_workload(rng: &mut Rng, thorough: bool) -> Value {
    let jit = rng.chance(1, 2);
    let (gn, gd) = *rng.pick(&[(0u64, 1u64), (0, 1), (1, 64), (1, 8)]);
    let blocks = rng.range(2, if thorough { 30 } else { 7 });
    let threshold = *rng.pick(&[1u64, 5, 100]);
    let mut kinds: Vec<&str> = KINDS.to_vec();
    rng.shuffle(&mut kinds);
    kinds.truncate(rng.range(1, 4) as usize);
    // garbage made by (or handed back from) threads that have finished has a
    // recorded defect of its own (known_findings.json): such runs use that one
    // kind only, so that it neither hides nor gets mixed into other results
    if let Some(tk) = kinds.iter().copied().find(|k| *k == "t-thread" || *k == "t-thread-result") {
        kinds = vec![tk];
    }
    let only = std::env::var("VERIF_C19_KINDS").unwrap_or_default();
    if !only.is_empty() {
        kinds = KINDS.iter().copied().filter(|k| only.split(',').any(|o| o == *k)).collect();
    }
    let mut bl = Vec::new();
    for _ in 0..blocks {
        let mut ops = Vec::new();
        for _ in 0..rng.range(1, 4) {
            let k = *rng.pick(&kinds);
            let n = if gn == 1 && gd == 8 { rng.range(40, 80) } else { rng.range(60, if thorough { 3000 } else { 160 }) };
            let ring = rng.range(2, 9);
            // every redefinition beyond the recycling threshold costs a recycling pass
            let n = if k == "t-pair" || k == "shadowed" { n.min(3 * threshold + 20) } else { n };
            ops.push(json!([k, n, ring]));
        }
        // live-set changes
        match rng.below(4) {
            0 => ops.push(json!(["keep-add", rng.range(1, 100), 0])),
            1 => ops.push(json!(["keep-drop", 0, 0])),
            _ => {}
        }
        if rng.chance(1, 2) {
            ops.push(json!(["weak", rng.range(1, 100), 0]));
        }
        bl.push(Value::Array(ops));
    }
    json!({"jit": jit, "gc": [gn, gd], "chunk": *rng.pick(if thorough { &[256u64, 1024, 4096, 25600][..] } else { &[256u64, 256, 256, 1024, 4096][..] }), "threshold": threshold, "blocks": bl})
}

fn render(op: &Value, uid: &mut u64) -> String {
    let k = op[0].as_str().unwrap_or("");
    let n = op[1].as_u64().unwrap_or(1);
    let r = op[2].as_u64().unwrap_or(3);
    match k {
        "acyclic" => format!("(g-acyclic {})", n),
        "self" => format!("(g-self {})", n),
        "ring" => format!("(g-ring {} {})", n.min(400), r),
        "mixed" => format!("(g-mixed {})", n),
        "closure" => format!("(g-closure {})", n),
        "continuation" => format!("(g-continuation {})", n.min(300)),
        "handler" => format!("(g-handler {})", n.min(300)),
        "t-acyclic" => format!("(g-t-acyclic {})", n.min(300)),
        "t-ring" => format!("(g-t-ring {} {})", n.min(200), r),
        "t-closure" => format!("(g-t-closure {})", n.min(300)),
        "t-thread" => format!("(g-t-thread {} {})", n.min(30), r),
        "t-thread-result" => format!("(g-t-thread-result {} {})", n.min(3), r),
        "t-channel" => format!("(g-t-channel {})", n.min(300)),
        "t-handoff" => format!("(g-t-handoff {})", n.min(6)),
        "t-pair" => {
            // a shadowed global that is referenced only by the code of another
            // shadowed global; each pair is redefined in its own evaluation
            let mut s = String::new();
            for _ in 0..n.min(320) {
                s.push_str("(define t-payload (let ((b (box 0))) (set-box! b (cons (make-tracker) b)) b))\n(define (t-peek) (car (unbox t-payload)))\n;;;;\n");
            }
            s.push_str("(define t-payload 0)\n(define (t-peek) 0)");
            s
        }
        "shadowed" => {
            // garbage that is only referenced from shadowed globals
            let mut s = String::new();
            for _ in 0..n.min(40) {
                *uid += 1;
                s.push_str(&format!("(define junk (mutable-vector (box {}) (box {})))\n;;;;\n", uid, uid));
            }
            s.push_str("(define junk 0)");
            s
        }
        "keep-add" => format!("(keep-add! {})", n),
        "keep-drop" => "(keep-drop!)".to_string(),
        _ => "void".to_string(),
    }
}

impl Scenario for C19 {
    fn name(&self) -> &'static str {
        "c19-reclaim"
    }
    fn property(&self) -> &'static str {
        "C19"
    }
    fn setup(&self) {
        vmh::build_prototypes(true, true);
    }
    fn default_runs(&self, thorough: bool) -> u64 {
        if thorough { 20_000 } else { 320 }
    }
    fn timeout_ms(&self) -> u64 {
        // thorough-tier runs (up to 30 blocks of up to 3000 items with forced
        // collections) take minutes on a loaded machine; slow is not hung
        600_000
    }

    fn child(&self, spec: &Spec) {
        let mut wrng = Rng::derive(spec.seed, spec.index, 1);
        let w = if spec.overrides.is_null() { gen_workload(&mut wrng, spec.tier_thorough) } else { spec.overrides.clone() };
        report::set_workload(w.clone());
        if spec.gen_only {
            return;
        }
        let mut faults = vmh::default_faults(spec.seed, spec.index);
        faults.gc_num = w["gc"][0].as_u64().unwrap_or(0);
        faults.gc_den = w["gc"][1].as_u64().unwrap_or(1);
        faults.heap_chunk = w["chunk"].as_u64().unwrap_or(1024) as usize;
        faults.recycle_threshold = w["threshold"].as_u64().unwrap_or(100) as usize;
        let mut engine = vmh::start(
            spec,
            vmh::VmOptions {
                property: "C19",
                jit: w["jit"].as_bool().unwrap_or(true),
                faults,
                yield_at_dispatch: false,
                max_steps: 2_000_000_000,
                expected_steps: 100_000,
                on_stop: report::stop_is_harness_error,
                panic_class: |m| vmh::panic_signature("C19", m),
            },
        );
        // a reachable slot that was freed is C04's business; here it is only counted
        vmh::set_stale_is_violation(false);
        vmh::set_context("prelude");
        *MASTER.lock().unwrap() = Some(Arc::new(()));
        engine.register_fn("make-tracker", make_tracker);
        if let Err(e) = vmh::eval(&mut engine, PRELUDE) {
            report::harness_error(format!("prelude failed: {}", e));
        }
        let blocks = w["blocks"].as_array().cloned().unwrap_or_default();
        let tier = if w["jit"].as_bool().unwrap_or(true) { "jit" } else { "nojit" };
        // Under JIT, mutable struct instances that hold boxes lose slots (the
        // defect recorded for C04 as C04/jit/struct-field/*). Once such storage
        // has been created in a run, what the run reports is attributed to it.
        let mut jit_struct_used = false;
        let mut uid = 0u64;
        // warm-up: every garbage kind of this run once, then a full collection
        vmh::set_context("warm-up");
        let mut seen: Vec<String> = Vec::new();
        for b in blocks.iter() {
            for op in b.as_array().into_iter().flatten() {
                let k = op[0].as_str().unwrap_or("").to_string();
                if !seen.contains(&k) && !k.starts_with("keep") && k != "weak" && k != "t-rooted" {
                    let small = json!([k, 3, 3]);
                    let src = render(&small, &mut uid);
                    for piece in src.split("\n;;;;\n") {
                        if let Err(e) = vmh::eval(&mut engine, piece) {
                            report::violation("C19/unexpected-error", format!("warm-up {} failed: {}", piece, e));
                        }
                    }
                    seen.push(k);
                }
            }
        }
        let collect = |engine: &mut steel::steel_vm::engine::Engine| -> (usize, usize, steel::verif::HeapStats) {
            // twice: the first pass lets values that were kept alive only by
            // reference counts of freed slots go away
            let _ = vmh::eval(engine, "(#%gc-collect)");
            let _ = vmh::eval(engine, "(#%gc-collect)");
            let hs = engine.verif_heap_stats();
            (hs.value_slots - hs.value_free_actual, hs.vector_slots - hs.vector_free_actual, hs)
        };
        let (base_val, base_vec, _) = collect(&mut engine);
        let mut model_keep: Vec<i64> = Vec::new();
        let mut max_slots = 0usize;
        // values the host keeps rooted: created in one block, held across that
        // block's collections, released at the start of the next block
        let mut rooted: Vec<steel::RootedSteelVal> = Vec::new();
        let mut tracker_kinds: Vec<String> = Vec::new();
        let mut pair_redefinitions = 0u64;
        // weak boxes of earlier blocks, already seen cleared: they stay cleared
        // whatever the slot of their target is used for later
        let mut cleared_weak: Vec<String> = Vec::new();
        for (bi, b) in blocks.iter().enumerate() {
            vmh::set_context("block");
            rooted.clear();
            let mut rooted_boxes = 0usize;
            let mut weak_checks: Vec<String> = Vec::new();
            for op in b.as_array().into_iter().flatten() {
                let k = op[0].as_str().unwrap_or("");
                if k.starts_with("t-") && !tracker_kinds.iter().any(|x| x == k) {
                    tracker_kinds.push(k.to_string());
                }
                if k == "t-pair" {
                    pair_redefinitions += op[1].as_u64().unwrap_or(0).min(320);
                }
                if k == "t-rooted" {
                    vmh::set_context(&format!("{}/t-rooted", tier));
                    for _ in 0..op[1].as_u64().unwrap_or(1).min(20) {
                        match engine.run(format!("(make-t-ring {})", op[2].as_u64().unwrap_or(3))) {
                            Ok(mut vs) => {
                                let v = vs.pop().unwrap();
                                rooted.push(v.as_rooted());
                                rooted_boxes += op[2].as_u64().unwrap_or(3) as usize;
                                report::probe("host-rooted-ring");
                            }
                            Err(e) => report::violation("C19/unexpected-error", format!("block {}: host ring failed: {}", bi, e)),
                        }
                    }
                    continue;
                }
                if k == "weak" {
                    uid += 1;
                    let name = format!("wb{}", uid);
                    // target reachable only from the weak box, and a control
                    // whose target stays in the live set
                    // right after a collection: the target takes one of the first free slots,
                    // which are also the first to be handed out again after a later collection
                    let src = format!("(#%gc-collect)\n(define {name} (make-weak-box (box {v})))", name = name, v = op[1]);
                    if let Err(e) = vmh::eval(&mut engine, &src) {
                        report::violation("C19/unexpected-error", format!("{} failed: {}", src, e));
                    }
                    weak_checks.push(name);
                    continue;
                }
                if k == "keep-add" {
                    model_keep.push(op[1].as_i64().unwrap_or(0));
                }
                if k == "keep-drop" {
                    model_keep.pop();
                }
                let src = render(op, &mut uid);
                if tier == "jit" && k == "mixed" {
                    jit_struct_used = true;
                }
                vmh::set_context(&if jit_struct_used { "jit/mixed".to_string() } else { format!("{}/{}", tier, k) });
                for piece in src.split("\n;;;;\n") {
                    if let Err(e) = vmh::eval(&mut engine, piece) {
                        report::violation("C19/unexpected-error", format!("block {}: {} failed: {}", bi, piece, e));
                    }
                }
            }
            vmh::set_context(&if jit_struct_used { "jit/mixed".to_string() } else { format!("{}/collect", tier) });
            let vio = |name: &str| if jit_struct_used { format!("C19/jit/mixed/{}", name) } else { format!("C19/{}", name) };
            if !cleared_weak.is_empty() && bi < 8 {
                // live boxes take over freed slots - among them, sooner or later, the
                // slot a cleared weak box used to watch; the weak box must not mistake
                // the new tenant for its target
                // (bounded: the four most recent ones, in the first eight blocks of a run)
                let reads: Vec<String> = cleared_weak.iter().rev().take(4).map(|n| format!("(weak-box-value {})", n)).collect();
                // short-lived boxes walk the allocator's cursor once around the heap; after
                // every single allocation the cleared weak boxes are read again
                let src = format!(
                    "(define (weak-probe n) (let lp ((i 0)) (if (= i n) '() (begin (box 424242) (let ((seen (list {}))) (if (equal? seen '({})) (lp (+ i 1)) (cons i seen)))))))\n(weak-probe {})",
                    reads.join(" "),
                    vec!["#f"; reads.len()].join(" "),
                    (2 * engine.verif_heap_stats().value_slots).min(30_000)
                );
                // no forced collections while the probe allocates: a collection would
                // only make the tenants unreachable again (and costs a full mark each)
                let saved = vmh::with_faults(|f| std::mem::replace(&mut f.gc_num, 0)).unwrap_or(0);
                let probed = vmh::eval(&mut engine, &src);
                vmh::with_faults(|f| f.gc_num = saved);
                match probed {
                    Ok(v) => {
                        let s = v.last().cloned().unwrap_or_default();
                        report::set_extra("weak_probe_last", json!(format!("block {}: {}", bi, s)));
                        if s != "()" {
                            report::violation(
                                &vio("weak-box-reports-a-value-again-after-it-was-cleared"),
                                format!("block {}: weak boxes that were cleared in earlier blocks now give {} (the contents of whatever was given the slot of their target)", bi, s),
                            );
                        }
                    }
                    Err(e) => report::violation(&vio("weak-box-error"), format!("block {}: reading cleared weak boxes failed: {}", bi, e)),
                }
            }
            let (lv, lvec, hs) = collect(&mut engine);
            max_slots = max_slots.max(hs.value_slots).max(hs.vector_slots);
            if hs.value_free_accounted != hs.value_free_actual || hs.vector_free_accounted != hs.vector_free_actual {
                report::violation(
                    &vio("free-slot-accounting"),
                    format!("block {}: free-slot counters disagree with the mark bits: {:?}", bi, hs),
                );
            }
            // live-set: one box per kept value; per weak check: a box held only
            // weakly (must be gone) and a live target (1 box)
            let weak_live: usize = {
                // all weak checks so far keep their live target
                0
            };
            let _ = weak_live;
            // Unreclaimed garbage grows with the amount created (at least 40
            // slots per batch); a few slots may stay referenced from stale
            // temporaries, and storage that is only referenced from shadowed
            // globals waits for the recycling threshold to be passed.
            let threshold = w["threshold"].as_u64().unwrap_or(100) as usize;
            let uses_shadowed = blocks.iter().any(|b| b.as_array().into_iter().flatten().any(|op| op[0] == "shadowed"));
            let uses_pair = blocks.iter().any(|b| b.as_array().into_iter().flatten().any(|op| op[0] == "t-pair"));
            let slack = if uses_shadowed { 24 + 3 * (16 * threshold + 48) } else if uses_pair { 24 + 2 * threshold } else { 24 };
            let expect_val = base_val + model_keep.len() + rooted_boxes;
            if lv > expect_val + slack || lvec > base_vec + slack {
                report::violation(
                    &vio("garbage-not-reclaimed"),
                    format!(
                        "block {}: after a full collection {} value slots and {} vector slots are live; baseline {} / {} plus {} kept values gives {} / {} (slack {}) ({:?})",
                        bi, lv, lvec, base_val, base_vec, model_keep.len(), expect_val, base_vec, slack, hs
                    ),
                );
            }
            // the live data still reads correctly
            let sum: i64 = model_keep.iter().sum();
            match vmh::eval(&mut engine, "(keep-sum)") {
                Ok(v) if v.last().map(|s| s.as_str()) == Some(sum.to_string().as_str()) => {}
                other => report::violation(&vio("live-data-wrong"), format!("block {}: (keep-sum) gave {:?}, expected {}", bi, other, sum)),
            }
            for name in cleared_weak.iter() {
                match vmh::eval(&mut engine, &format!("(list (weak-box-value {n}))", n = name)) {
                    Ok(v) => {
                        let s = v.last().cloned().unwrap_or_default();
                        if s != "(#false)" {
                            report::violation(
                                &vio("weak-box-reports-a-value-again-after-it-was-cleared"),
                                format!("block {}: {} was cleared in an earlier block and now gives {} (the contents of whatever was given the slot of its target)", bi, name, s),
                            );
                        }
                    }
                    Err(e) => report::violation(&vio("weak-box-error"), format!("block {}: {} failed: {}", bi, name, e)),
                }
            }
            cleared_weak.extend(weak_checks.iter().cloned());
            for name in weak_checks {
                match vmh::eval(&mut engine, &format!("(list (weak-box-value {n}))", n = name)) {
                    Ok(v) => {
                        let s = v.last().cloned().unwrap_or_default();
                        if s != "(#false)" {
                            report::violation(&vio("weak-box-not-cleared"), format!("block {}: {} => {}", bi, name, s));
                        }
                    }
                    Err(e) => report::violation(&vio("weak-box-error"), format!("block {}: {} failed: {}", bi, name, e)),
                }
            }
        }
        // What the slot counts cannot see: whether the contents of unreachable
        // storage are ever let go. Nothing that carries a tracker is reachable
        // now; eleven full collections in a row include a compaction of the
        // value list, after which no unreachable slot may still hold its contents.
        if !tracker_kinds.is_empty() {
            rooted.clear();
            vmh::set_context(&if jit_struct_used { "jit/mixed".to_string() } else { format!("{}/final", tier) });
            let before = trackers_alive();
            for _ in 0..12 {
                let _ = vmh::eval(&mut engine, "(#%gc-collect)");
            }
            let alive = trackers_alive();
            report::set_extra("trackers", json!({"before_final_collections": before, "after": alive, "kinds": tracker_kinds, "pair_redefinitions": pair_redefinitions}));
            // stale temporaries of the last evaluation may hold a few; shadowed
            // globals below the recycling threshold are not examined yet
            let threshold = w["threshold"].as_u64().unwrap_or(100) as usize;
            let slack = if tracker_kinds.iter().any(|k| k == "t-pair") { 24 + 2 * threshold } else { 24 };
            if alive > slack {
                let class = if tracker_kinds.len() == 1 { tracker_kinds[0].clone() } else { "several".to_string() };
                let name = format!("contents-never-released/{}", class);
                report::violation(
                    &(if jit_struct_used { format!("C19/jit/mixed/{}", name) } else { format!("C19/{}", name) }),
                    format!(
                        "after the last block nothing that carries a tracker is reachable, yet after 12 consecutive full collections {} tracker(s) still exist (slack {}); kinds {:?}, {} pair redefinitions, recycling threshold {}",
                        alive, slack, tracker_kinds, pair_redefinitions, threshold
                    ),
                );
            }
        }
        report::set_extra("max_slots", json!(max_slots));
        let stale = vmh::STALE_SLOTS.load(std::sync::atomic::Ordering::SeqCst);
        if stale > 0 {
            report::probe_n("stale-slot-touched(C04 matter)", stale);
        }
        report::set_extra("full_collections", json!(vmh::FULL_COLLECTIONS.load(std::sync::atomic::Ordering::Relaxed)));
        report::set_nontrivial(true);
    }

    fn shrink(&self, w: &Value) -> Vec<Value> {
        let mut out = Vec::new();
        let n = w["blocks"].as_array().map(|a| a.len()).unwrap_or(0);
        for i in (0..n).rev() {
            let mut c = w.clone();
            c["blocks"].as_array_mut().unwrap().remove(i);
            out.push(c);
        }
        for i in 0..n {
            let m = w["blocks"][i].as_array().map(|a| a.len()).unwrap_or(0);
            for j in (0..m).rev() {
                let mut c = w.clone();
                c["blocks"][i].as_array_mut().unwrap().remove(j);
                out.push(c);
            }
        }
        out
    }

    fn rule(&self) -> String {
        "each evaluation = one forked run of 3-30 blocks; a block creates 1-3 batches of garbage (acyclic, self-cycles through boxes and vectors, rings of 2-9 boxes, rings through box/vector/struct field, closures capturing themselves, storage referenced only from a dead continuation, from a finished handler, from shadowed globals; and kinds that carry host trackers: acyclic, rings, self-capturing closures, rings that the host keeps rooted across the block's collections and then releases, pairs of shadowed globals where one is referenced only by the code of the other) of 5-3000 items each, changes the live set, creates weak boxes, then requests a full collection; forced collections at rate {0,1/64,1/8}, heap growth chunk and recycling threshold randomised, JIT on/off; after every block: live value/vector slots <= warm-up baseline + model live set + a fixed residue, accounting == mark bits, live data reads back, weak boxes of dropped targets are cleared; at the end 12 consecutive full collections (they include a compaction) after which the number of host trackers still in existence must not exceed the residue; non-trivial = every run".into()
    }
    fn assumptions(&self) -> Vec<String> {
        vec![
            "one script thread at a time: garbage kinds t-thread / t-thread-result start a thread and join it before going on".into(),
            "the count is taken after two consecutive full collections at a quiescent point (empty stacks)".into(),
        ]
    }
    fn components(&self) -> Value {
        json!({"real": ["collector (weak collection, mark and sweep, compaction, growth)", "VM", "JIT (per run on/off)", "global slot recycler"],
               "simulated": ["collection timing", "heap growth chunk and recycling threshold knobs"]})
    }
}

/// number of weak checks in blocks 0..=bi (each keeps one live target box)
fn engine_weak_count(w: &Value, bi: usize) -> usize {
    let mut n = 0;
    for (i, b) in w["blocks"].as_array().into_iter().flatten().enumerate() {
        if i > bi {
            break;
        }
        for op in b.as_array().into_iter().flatten() {
            if op[0] == "weak" {
                n += 1;
            }
        }
    }
    n
}

fn uid_weak_live(n: &usize) -> usize {
    *n
}
