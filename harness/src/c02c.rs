//! C02 (second scenario) — call shapes across configurations.
//!
//! One run = one call shape, evaluated piecewise on one engine per
//! configuration: a callee (0-10 fixed parameters, optionally a rest
//! parameter, parameters read several times before their last use), a caller
//! (tail / non-tail / under `length` / through an alias / at stack depth 3, 150
//! or 1000), an argument count that fits or not, optionally an assignment of
//! the callee in the piece that defines it, in a later piece, or a later
//! redefinition, the definitions optionally inside one top-level `begin`.
//! The transcripts (per piece: Ok + rendered value, Err + error kind, host
//! panic, crash) under the reference configuration and under sampled
//! combinations of the five switches must be identical. When a configuration
//! differs, the smallest set of its switches that still differs is found and
//! the signature names that set and the features of the shape.

use crate::c02::{run_config, Config};
use crate::report;
use crate::rng::Rng;
use crate::runner::{Scenario, Spec};
use crate::vmh;
use serde_json::{json, Value};

pub struct C02C;

fn gen(rng: &mut Rng, thorough: bool) -> Value {
    let k = if thorough { 31 } else { 5 };
    let mut cfgs: Vec<u64> = (1..32).collect();
    rng.shuffle(&mut cfgs);
    cfgs.truncate(k);
    // always include the plain JIT and the plain recursive inliner
    if !cfgs.contains(&1) {
        cfgs[0] = 1;
    }
    let params = rng.below(11);
    let rest = rng.chance(1, 3);
    let extra = if rest { *rng.pick(&[0u64, 1, 3, 8, 9, 12]) } else { 0 };
    json!({
        "configs": cfgs,
        "params": params,
        "rest": rest,
        "extra": extra,
        "body": rng.below(4),
        "caller": *rng.pick(&["nontail", "tail", "length", "alias", "deep", "deep", "let"]),
        "depth": *rng.pick(&[3u64, 150, 1000]),
        "arity": if rng.chance(1, 4) { if rng.chance(1, 2) { "less" } else { "more" } } else { "ok" },
        "assign": *rng.pick(&["none", "none", "same-piece", "later", "redefine-later"]),
        "begin": rng.chance(1, 3),
        "piecewise": rng.chance(1, 2),
    })
}

fn pieces(w: &Value) -> Vec<String> {
    let k = w["params"].as_u64().unwrap_or(0) as usize;
    let rest = w["rest"].as_bool().unwrap_or(false);
    let extra = w["extra"].as_u64().unwrap_or(0) as usize;
    let params: Vec<String> = (0..k).map(|j| format!("a{}", j)).collect();
    let head = if rest { format!("(callee {} . more)", params.join(" ")) } else { format!("(callee {})", params.join(" ")) };
    let mut parts: Vec<String> = Vec::new();
    for (j, p) in params.iter().enumerate() {
        match (w["body"].as_u64().unwrap_or(0) + j as u64) % 4 {
            0 => parts.push(format!("{p} {p} (idf {p})", p = p)),
            1 => parts.push(format!("(+ {p} {p})", p = p)),
            2 => parts.push(format!("(idf {p})", p = p)),
            _ => parts.push(p.clone()),
        }
    }
    if rest {
        parts.push("(length more)".into());
        parts.push("more".into());
    }
    let mut defs: Vec<String> = vec!["(define (idf x) x)".into(), format!("(define {} (list 'callee {}))", head, parts.join(" "))];
    let nargs = match w["arity"].as_str().unwrap_or("ok") {
        "less" => (k + extra).saturating_sub(1).min(k.saturating_sub(1)),
        "more" if !rest => k + 1,
        _ => k + extra,
    };
    let args: Vec<String> = (0..nargs).map(|j| if j % 2 == 0 { "m".to_string() } else { format!("{}", j) }).collect();
    let call = format!("(callee {})", args.join(" "));
    let depth = w["depth"].as_u64().unwrap_or(3);
    match w["caller"].as_str().unwrap_or("nontail") {
        "tail" => defs.push(format!("(define (caller m) {})", call)),
        "length" => defs.push(format!("(define (caller m) (length {}))", call)),
        "alias" => defs.push(format!("(define callee-alias callee)\n(define (caller m) (cons 2 (callee-alias {})))", args.join(" "))),
        "deep" => defs.push(format!("(define (caller-deep n m) (if (= n 0) (length {call}) (+ 1 (caller-deep (- n 1) m))))\n(define (caller m) (caller-deep {d} m))", call = call, d = depth)),
        "let" => defs.push(format!("(define (caller m) (let ((r {})) (list m r m)))", call)),
        _ => defs.push(format!("(define (caller m) (cons 1 {}))", call)),
    }
    let assign = w["assign"].as_str().unwrap_or("none");
    if assign == "same-piece" {
        defs.push("(set! callee (lambda args (list 'assigned (length args))))".into());
    }
    let mut out: Vec<String> = Vec::new();
    if w["begin"].as_bool().unwrap_or(false) {
        out.push(format!("(begin\n{})", defs.join("\n")));
    } else if w["piecewise"].as_bool().unwrap_or(false) {
        out.extend(defs);
    } else {
        out.push(defs.join("\n"));
    }
    out.push("(caller 7)".into());
    out.push("(list (with-handler (lambda (e) 'failed) (caller 8)) (with-handler (lambda (e) 'failed) (caller 9)))".into());
    match assign {
        "later" => out.push("(set! callee (lambda args (list 'later (length args))))".into()),
        "redefine-later" => out.push("(define (callee . args) (list 'redefined (length args)))".into()),
        _ => {}
    }
    out.push("(with-handler (lambda (e) 'failed) (caller 10))".into());
    out
}

fn features(w: &Value) -> String {
    let k = w["params"].as_u64().unwrap_or(0);
    let rest = w["rest"].as_bool().unwrap_or(false);
    let extra = w["extra"].as_u64().unwrap_or(0);
    let caller = w["caller"].as_str().unwrap_or("nontail");
    let total = k + if w["arity"] == "ok" { extra } else { 0 };
    format!(
        "callee={}/args={}/caller={}{}/arity={}/assign={}{}",
        if rest { "rest" } else { "fixed" },
        if total > 8 { "9+" } else if total > 4 { "5-8" } else { "0-4" },
        caller,
        if caller == "deep" { format!("-{}", if w["depth"].as_u64().unwrap_or(3) >= 100 { "100+" } else { "shallow" }) } else { String::new() },
        w["arity"].as_str().unwrap_or("ok"),
        w["assign"].as_str().unwrap_or("none"),
        if w["begin"].as_bool().unwrap_or(false) { "/in-begin" } else { "" }
    )
}

fn switch_names(bits: u64) -> String {
    let c = Config::from_bits(bits);
    let mut s = Vec::new();
    if c.jit {
        s.push("jit");
    }
    if c.inline {
        s.push("inline");
    }
    if c.inline_rec {
        s.push("inline_recursive");
    }
    if c.lifting_off {
        s.push("no_closure_lifting");
    }
    if c.module_inline {
        s.push("module_inline");
    }
    s.join("+")
}

/// outcome of a configuration as one comparable value
fn outcome(bits: u64, evals: &[String], spec: &Spec) -> Vec<String> {
    match run_config(Config::from_bits(bits), evals, false, spec) {
        Ok(t) => t,
        Err(e) => vec![format!("Crash:{}", e.chars().take(60).collect::<String>())],
    }
}

impl Scenario for C02C {
    fn name(&self) -> &'static str {
        "c02-calls"
    }
    fn property(&self) -> &'static str {
        "C02"
    }
    fn setup(&self) {
        vmh::build_prototypes(true, true);
    }
    fn default_runs(&self, thorough: bool) -> u64 {
        if thorough { 40_000 } else { 1_500 }
    }
    fn timeout_ms(&self) -> u64 {
        180_000
    }
    fn shrink(&self, w: &Value) -> Vec<Value> {
        let mut out = Vec::new();
        let n = w["configs"].as_array().map(|a| a.len()).unwrap_or(0);
        for i in (0..n).rev() {
            if n > 1 {
                let mut c = w.clone();
                c["configs"].as_array_mut().unwrap().remove(i);
                out.push(c);
            }
        }
        for (key, val) in [("begin", json!(false)), ("assign", json!("none")), ("arity", json!("ok")), ("piecewise", json!(false)), ("caller", json!("nontail")), ("body", json!(3))] {
            if w[key] != val {
                let mut c = w.clone();
                c[key] = val;
                out.push(c);
            }
        }
        out
    }

    fn child(&self, spec: &Spec) {
        let mut wrng = Rng::derive(spec.seed, spec.index, 1);
        let w = if spec.overrides.is_null() { gen(&mut wrng, spec.tier_thorough) } else { spec.overrides.clone() };
        report::set_workload(w.clone());
        if spec.gen_only {
            return;
        }
        report::install_panic_hook(|m| vmh::panic_signature("C02", m));
        let evals = pieces(&w);
        let base = outcome(0, &evals, spec);
        if base.iter().any(|l| l.starts_with("Crash:") || l == "Panic") {
            report::violation(
                &format!("C02/calls/reference-configuration-failed/{}", features(&w)),
                format!("the reference configuration ended with {:?}\nsource:\n{}", base, evals.join("\n;;\n")),
            );
        }
        report::set_nontrivial(base.iter().filter(|l| l.starts_with("Ok:")).count() >= 2);
        for bits in w["configs"].as_array().into_iter().flatten() {
            let bits = bits.as_u64().unwrap_or(0);
            report::fault(&format!("config:{}", Config::from_bits(bits).name()));
            let t = outcome(bits, &evals, spec);
            if t == base {
                continue;
            }
            // the smallest subset of this configuration's switches that still differs
            let on: Vec<u64> = (0..5).map(|i| 1u64 << i).filter(|b| bits & b != 0).collect();
            let mut culprit = bits;
            let mut culprit_t = t.clone();
            'search: for size in 1..on.len() {
                let mut idx: Vec<usize> = (0..size).collect();
                loop {
                    let sub: u64 = idx.iter().map(|i| on[*i]).sum();
                    let ts = outcome(sub, &evals, spec);
                    if ts != base {
                        culprit = sub;
                        culprit_t = ts;
                        break 'search;
                    }
                    // next combination
                    let mut i = size;
                    while i > 0 {
                        i -= 1;
                        if idx[i] != i + on.len() - size {
                            idx[i] += 1;
                            for j in i + 1..size {
                                idx[j] = idx[j - 1] + 1;
                            }
                            break;
                        }
                        if i == 0 {
                            i = usize::MAX;
                            break;
                        }
                    }
                    if i == usize::MAX {
                        break;
                    }
                }
            }
            let at = culprit_t.iter().zip(base.iter()).position(|(a, b)| a != b).unwrap_or(culprit_t.len().min(base.len()));
            let how = match culprit_t.get(at).map(|s| s.as_str()) {
                Some(s) if s.starts_with("Crash:") => "crash",
                Some("Panic") => "host-panic",
                Some(s) if s.starts_with("Err:") && base.get(at).map(|b| b.starts_with("Ok:")).unwrap_or(false) => "error-instead-of-value",
                Some(s) if s.starts_with("Ok:") && base.get(at).map(|b| b.starts_with("Err:")).unwrap_or(false) => "value-instead-of-error",
                Some(s) if s.starts_with("Timeout") => "timeout",
                _ => "different-value",
            };
            report::violation(
                &format!("C02/calls/{}/{}/{}", switch_names(culprit), how, features(&w)),
                format!(
                    "piece {} differs under [{}] (smallest differing subset of [{}]): {:?} vs reference {:?}\nsource:\n{}",
                    at,
                    switch_names(culprit),
                    switch_names(bits),
                    culprit_t.get(at),
                    base.get(at),
                    evals.join("\n;;\n")
                ),
            );
        }
    }

    fn rule(&self) -> String {
        "one run = one call shape evaluated piecewise per configuration: callee with 0-10 fixed parameters, optional rest parameter (0-12 extra arguments), parameters read several times before their last use; caller in tail / non-tail / under length / in a let / through an alias / at stack depth 3, 150 or 1000; fitting or wrong argument count; the callee assigned in the defining piece, in a later piece, or redefined later; definitions in one piece, one per piece, or inside a top-level begin; reference configuration vs 5 sampled (thorough: all 31) switch combinations, always including the plain JIT; on a difference the smallest differing subset of the switches is searched; non-trivial = at least two pieces succeeded under the reference configuration".into()
    }
    fn assumptions(&self) -> Vec<String> {
        vec!["every configuration starts from a prototype engine of the right tier and sets the compile-time switches before the pieces are compiled".into()]
    }
    fn components(&self) -> Value {
        json!({"real": ["compiler passes behind the switches", "VM call paths", "JIT call helpers and arity handling"], "simulated": ["configuration (environment switches per engine)", "evaluation history (pieces)"]})
    }
}
