//! C17 (second scenario) — the timeout watchdog of `InterruptHandler`.
//!
//! The real `InterruptHandler` (its watchdog thread, its `park`/`unpark`
//! protocol, its bounded "done" channel and its timed receive) runs under the
//! token scheduler and the simulated clock: one scheduler step is one tick
//! (one microsecond of the `Duration` given to `InterruptHandler::new`), and
//! the clock jumps to the next deadline when nothing can run. The embedding
//! thread makes a seeded sequence of `run_with_timeout` calls on one engine:
//! evaluations that end long before the timeout, evaluations that never end,
//! and evaluations whose length is close to the timeout (the race between "the
//! body is done" and "the time is up"), each followed by a plain evaluation
//! outside the watchdog.
//!
//! Oracle
//!  * an evaluation that never ends is stopped: `run_with_timeout` returns an
//!    error, at most BOUND dispatch steps of the evaluating thread after the
//!    watchdog raised the request;
//!  * an evaluation that was over before its timeout could have expired
//!    (simulated time from arming to the end of the body < timeout) returns its
//!    value;
//!  * after `run_with_timeout` has returned (it resumes the engine itself) a
//!    plain evaluation gives its value: no request is left pending and none
//!    arrives late;
//!  * the embedding thread is never blocked forever inside `run_with_timeout`.

use crate::report;
use crate::rng::Rng;
use crate::runner::{Scenario, Spec};
use crate::sched;
use crate::vmh;
use serde_json::{json, Value};
use std::sync::atomic::{AtomicU64, Ordering};
use std::sync::Mutex;
use steel::steel_vm::interrupt::InterruptHandler;

pub struct C17W;

const PRELUDE: &str = r#"
(define (spin) (spin))
(define (ping) (pong))
(define (pong) (ping))
(define (count-up n) (count-up (+ n 1)))
(define (loop-n n) (if (= n 0) 0 (loop-n (- n 1))))
"#;

const LONG: &[(&str, &str)] = &[
    ("self-tail-loop", "(spin)"),
    ("mutual-tail-loop", "(ping)"),
    ("tail-loop-with-arg", "(count-up 0)"),
    ("named-let-loop", "(let lp ((i 0)) (lp (+ i 1)))"),
    ("loop-in-map-callback", "(map (lambda (x) (spin)) (list 1 2 3))"),
    ("loop-in-transduce", "(transduce (list 1 2 3) (mapping (lambda (x) (spin))) (into-list))"),
    ("loop-in-handler", "(with-handler (lambda (e) (spin)) (error \"x\"))"),
    ("loop-in-wind-body", "(dynamic-wind (lambda () 0) (lambda () (ping)) (lambda () 2))"),
];

const BOUND: u64 = 1000;

static CURRENT: Mutex<String> = Mutex::new(String::new());
static CALL_NO: AtomicU64 = AtomicU64::new(0);
static FIRES_BEFORE: AtomicU64 = AtomicU64::new(0);

fn set_current(s: &str) {
    let mut g = match CURRENT.lock() {
        Ok(g) => g,
        Err(p) => p.into_inner(),
    };
    g.clear();
    g.push_str(s);
}

fn current() -> String {
    match CURRENT.lock() {
        Ok(g) => g.clone(),
        Err(p) => p.into_inner().clone(),
    }
}

fn watchdog_state(d: &str) -> &'static str {
    if d.contains("t1:blocked@vm.watchdog.park") {
        "watchdog-parked"
    } else if d.contains("t1:blocked@vm.watchdog.recv_timeout") {
        "watchdog-waiting"
    } else if d.contains("t1:finished") {
        "watchdog-ended"
    } else {
        "watchdog-runnable"
    }
}

fn on_stop(s: sched::Stop) -> ! {
    let cur = current();
    let call = CALL_NO.load(Ordering::SeqCst);
    match s {
        sched::Stop::Deadlock(d) => {
            let place = if d.contains("t0:blocked@vm.run_with_timeout.send") { "done-channel-full" } else { "other" };
            report::violation(
                &format!("C17/watchdog/host-blocked-forever/{}/{}", place, watchdog_state(&d)),
                format!("call {} ({}): no thread can make progress: {}", call, cur, d),
            )
        }
        sched::Stop::Budget(d) => {
            if cur.starts_with("long") {
                let fires = vmh::WD_FIRES.load(Ordering::SeqCst) - FIRES_BEFORE.load(Ordering::SeqCst);
                let ws = watchdog_state(&d);
                if ws == "watchdog-runnable" && fires == 0 {
                    report::harness_error(format!("step budget exceeded with the watchdog runnable (unfair schedule?): {}", d));
                }
                report::violation(
                    &format!("C17/watchdog/non-terminating-evaluation-not-stopped/{}", if fires > 0 { "request-raised" } else { ws }),
                    format!(
                        "call {} ({}) ran past its timeout until the step budget was used up; interrupt requests raised by the watchdog during this call: {}; threads: {}",
                        call, cur, fires, d
                    ),
                )
            } else {
                report::harness_error(format!("step budget exceeded outside a non-terminating call ({}): {}", cur, d))
            }
        }
        sched::Stop::ReplayDiverged(d) => report::stop_is_harness_error(sched::Stop::ReplayDiverged(d)),
    }
}

fn gen(seed: u64, index: u64) -> Value {
    let mut r = Rng::derive(seed, index, 1);
    let jit = r.chance(1, 2);
    let timeout = *r.pick(&[15u64, 40, 100, 250, 600]);
    let many = r.chance(1, 12);
    let ncalls = if many { r.range(17, 24) } else { r.range(1, 6) };
    let mut calls = Vec::new();
    for _ in 0..ncalls {
        let k = if many { r.below(12) } else { r.below(10) };
        let c = match k {
            0..=3 => json!({"kind": "short", "n": r.below(3)}),
            4..=6 => json!({"kind": "long", "shape": r.below(LONG.len() as u64)}),
            7..=8 => {
                // length close to the timeout: a loop-n step costs about 7-9 dispatch steps
                let centre = timeout / 8;
                let n = (centre + r.below(centre / 2 + 3)).saturating_sub(centre / 4);
                json!({"kind": "edge", "n": n})
            }
            _ => json!({"kind": "short", "n": 0}),
        };
        calls.push(c);
    }
    json!({"jit": jit, "timeout": timeout, "calls": calls})
}

impl Scenario for C17W {
    fn name(&self) -> &'static str {
        "c17-watchdog"
    }
    fn property(&self) -> &'static str {
        "C17"
    }
    fn setup(&self) {
        vmh::build_prototypes(true, true);
    }
    fn default_runs(&self, thorough: bool) -> u64 {
        if thorough { 200_000 } else { 4_000 }
    }
    fn timeout_ms(&self) -> u64 {
        20_000
    }
    fn shrink(&self, w: &Value) -> Vec<Value> {
        let mut out = Vec::new();
        let calls = w["calls"].as_array().cloned().unwrap_or_default();
        for i in 0..calls.len() {
            let mut c = calls.clone();
            c.remove(i);
            let mut v = w.clone();
            v["calls"] = json!(c);
            out.push(v);
        }
        for i in 0..calls.len() {
            if calls[i]["kind"] != "short" {
                let mut c = calls.clone();
                c[i] = json!({"kind": "short", "n": 0});
                let mut v = w.clone();
                v["calls"] = json!(c);
                out.push(v);
            }
        }
        if w["jit"] == true {
            let mut v = w.clone();
            v["jit"] = json!(false);
            out.push(v);
        }
        out
    }

    fn child(&self, spec: &Spec) {
        let w = if spec.overrides.is_null() { gen(spec.seed, spec.index) } else { spec.overrides.clone() };
        report::set_workload(w.clone());
        if spec.gen_only {
            return;
        }
        let jit = w["jit"].as_bool().unwrap_or(false);
        let timeout = w["timeout"].as_u64().unwrap_or(100);
        let calls = w["calls"].as_array().cloned().unwrap_or_default();
        vmh::FAIR_ONLY.store(true, Ordering::SeqCst);
        let mut faults = vmh::default_faults(spec.seed, spec.index);
        faults.heap_chunk = 256;
        let mut engine = vmh::start(
            spec,
            vmh::VmOptions {
                property: "C17",
                jit,
                faults,
                yield_at_dispatch: false,
                max_steps: 20_000 + (2 * timeout + 600) * calls.len() as u64,
                expected_steps: 2000,
                on_stop,
                panic_class: |m| vmh::panic_signature("C17/watchdog", m),
            },
        );
        let tier = if jit { "jit" } else { "nojit" };
        if let Err(e) = vmh::eval(&mut engine, PRELUDE) {
            report::harness_error(format!("prelude failed: {}", e));
        }
        set_current("setup");
        let handler = InterruptHandler::new(&mut engine, std::time::Duration::from_micros(timeout));
        vmh::set_yield_at_dispatch(true);
        let mut longs = 0u64;
        for (ci, c) in calls.iter().enumerate() {
            CALL_NO.store(ci as u64, Ordering::SeqCst);
            let kind = c["kind"].as_str().unwrap_or("short").to_string();
            let (label, src, expect): (String, String, Option<String>) = match kind.as_str() {
                "long" => {
                    let sh = LONG[c["shape"].as_u64().unwrap_or(0) as usize % LONG.len()];
                    (format!("long/{}", sh.0), sh.1.to_string(), None)
                }
                _ => {
                    let n = c["n"].as_u64().unwrap_or(0);
                    (format!("{}/{}", kind, n), format!("(loop-n {})", n), Some("0".to_string()))
                }
            };
            set_current(&label);
            let fires_before = vmh::WD_FIRES.load(Ordering::SeqCst);
            FIRES_BEFORE.store(fires_before, Ordering::SeqCst);
            let res = handler.run_with_timeout(|| vmh::eval(&mut engine, &src));
            let armed = vmh::WD_ARMED_AT.load(Ordering::SeqCst);
            let done = vmh::WD_BODY_DONE_AT.load(Ordering::SeqCst);
            let fires = vmh::WD_FIRES.load(Ordering::SeqCst) - fires_before;
            let elapsed = done.saturating_sub(armed);
            match (&expect, &res) {
                (None, Ok(v)) => report::violation(
                    &format!("C17/watchdog/{}/non-terminating-shape-returned", tier),
                    format!("call {} {} returned {:?}", ci, src, v),
                ),
                (None, Err(_)) => {
                    longs += 1;
                    let end = vmh::MAIN_DISPATCHES.load(Ordering::SeqCst);
                    let at = vmh::WD_FIRED_AT_MAIN_DISPATCH.load(Ordering::SeqCst);
                    let lag = end.saturating_sub(at);
                    if fires > 0 && lag > BOUND {
                        report::violation(
                            &format!("C17/watchdog/{}/stopped-too-late", tier),
                            format!("call {} {}: {} dispatch steps after the watchdog's request (bound {})", ci, src, lag, BOUND),
                        );
                    }
                    if elapsed < timeout {
                        report::violation(
                            &format!("C17/watchdog/{}/interrupted-before-timeout", tier),
                            format!("call {} {}: stopped after {} ticks, timeout {}", ci, src, elapsed, timeout),
                        );
                    }
                    report::probe("long-call-stopped");
                }
                (Some(x), Ok(v)) => {
                    if v.last() != Some(x) {
                        report::violation(
                            &format!("C17/watchdog/{}/wrong-value", tier),
                            format!("call {} {} gave {:?}", ci, src, v),
                        );
                    }
                    if kind == "edge" {
                        report::probe("edge-call-finished");
                    }
                }
                (Some(_), Err(e)) => {
                    if elapsed < timeout {
                        // the body was over before the timeout of THIS call could have expired
                        report::violation(
                            &format!("C17/watchdog/{}/interrupted-before-timeout", tier),
                            format!(
                                "call {} {} (armed at tick {}, over at tick {}, timeout {} ticks) was stopped: {}",
                                ci, src, armed, done, timeout, e.chars().take(80).collect::<String>()
                            ),
                        );
                    }
                    report::probe("edge-call-timed-out");
                }
            }
            // the engine was resumed by run_with_timeout: use it normally
            set_current("probe");
            let st = engine.verif_stack_state();
            if st.stack != 0 || st.frames != 0 {
                report::violation(&format!("C17/watchdog/{}/stack-residue", tier), format!("after call {} {}: {:?}", ci, src, st));
            }
            match vmh::eval(&mut engine, "(+ 40 (loop-n 2) 2)") {
                Ok(v) if v.last().map(|s| s.as_str()) == Some("42") => {}
                other => report::violation(
                    &format!("C17/watchdog/{}/engine-interrupted-after-run_with_timeout-returned", tier),
                    format!(
                        "call {} ({}) had returned (the handler resumes the engine before it returns); a plain evaluation afterwards gave {:?}",
                        ci,
                        label,
                        other.map_err(|e| e.chars().take(90).collect::<String>())
                    ),
                ),
            }
        }
        vmh::set_yield_at_dispatch(false);
        report::set_nontrivial(longs > 0 || calls.len() > 1);
        report::set_extra("calls", json!(calls.len()));
        drop(handler);
    }

    fn rule(&self) -> String {
        format!("seeded search: the real InterruptHandler (watchdog thread, park/unpark, bounded done channel, timed receive) under the token scheduler and a simulated clock (1 step = 1 tick; the clock jumps to the next deadline when nothing can run); 1-6 (1 run in 12: 17-24) run_with_timeout calls per engine drawn from evaluations far shorter than the timeout, non-terminating shapes ({} of them) and evaluations whose length is close to the timeout, timeout in {{15,40,100,250,600}} ticks, each call followed by a plain evaluation; both tiers; fair strategies only (random, round robin); non-trivial = at least one non-terminating call stopped or more than one call", LONG.len())
    }
    fn assumptions(&self) -> Vec<String> {
        vec![
            "simulated time is the scheduler's step count: a timed receive expires when that many steps (of any thread) have been taken, or at once when no thread can run".into(),
            "strict-priority (PCT) schedules are excluded: a watchdog that is never scheduled cannot fire, which is a property of the schedule and not of the code".into(),
        ]
    }
    fn components(&self) -> Value {
        json!({"real": ["InterruptHandler::new / run_with_timeout and its watchdog thread", "ThreadStateController", "VM dispatch loop and interrupt poll", "JIT (both tiers)", "crossbeam bounded channel"],
               "simulated": ["OS scheduler", "clock (timed receive)", "park/unpark permits", "blocking send on the full channel"]})
    }
}
