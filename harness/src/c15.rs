//! C15 / C16 — world-stopping operations and progress under every interleaving.
//!
//! Real code: VM, safepoint handshake, heap lock, collector, global-table swap,
//! thread spawn/join, channels, mutexes, JIT (both settings). Simulated: the
//! scheduler (instruction-level interleaving plus a decision inside every
//! window of the handshake), park/unpark permits, blocking waits, collection
//! timing.
//!
//! One generated program per run: main spawns 1-7 threads running seeded mixes
//! of computation, allocation, assignment and reading of shared globals,
//! channel sends, mutex sections, collections, thread-local storage, nested
//! spawns; main receives every message through `map`, joins in a seeded order.
//! Programs are deadlock-free at script level by construction.

use crate::report;
use crate::rng::Rng;
use crate::runner::{Scenario, Spec};
use crate::sched;
use crate::vmh;
use serde_json::{json, Value};

use std::sync::atomic::{AtomicU64, Ordering as AtOrd};
use steel::steel_vm::register_fn::RegisterFn;

/// One operation on a shared global, stamped at invocation and at return with
/// the simulation's global event sequence number (only the token holder runs,
/// so the sequence is the real order of these events).
#[derive(Clone, Debug)]
struct LinOp {
    write: bool,
    global: usize,
    value: i64,
    begin: u64,
    end: u64,
    thread: usize,
}

static LIN_SEQ: AtomicU64 = AtomicU64::new(1);
static LIN_HIST: std::sync::Mutex<Vec<LinOp>> = std::sync::Mutex::new(Vec::new());

fn lin_begin(kind: isize, global: isize, value: isize) -> isize {
    let mut h = match LIN_HIST.lock() {
        Ok(g) => g,
        Err(p) => p.into_inner(),
    };
    h.push(LinOp {
        write: kind == 0,
        global: global as usize,
        value: value as i64,
        begin: LIN_SEQ.fetch_add(1, AtOrd::SeqCst),
        end: u64::MAX,
        thread: sched::current().unwrap_or(99),
    });
    (h.len() - 1) as isize
}

fn lin_end(id: isize, value: isize) {
    let mut h = match LIN_HIST.lock() {
        Ok(g) => g,
        Err(p) => p.into_inner(),
    };
    if let Some(op) = h.get_mut(id as usize) {
        op.end = LIN_SEQ.fetch_add(1, AtOrd::SeqCst);
        if !op.write {
            op.value = value as i64;
        }
    }
}

/// Register linearizability for histories in which every write has a unique
/// value: a read must return a write that began before the read ended, and no
/// other write may lie entirely between that write and the read (then the read
/// is stale: an assignment completed by one thread was not seen afterwards).
fn check_register_histories(nglob: usize) {
    let h = match LIN_HIST.lock() {
        Ok(g) => g.clone(),
        Err(p) => p.into_inner().clone(),
    };
    let mut reads = 0u64;
    let mut concurrent = 0u64;
    for g in 0..nglob {
        let mut writes: Vec<LinOp> = vec![LinOp { write: true, global: g, value: 0, begin: 0, end: 0, thread: 0 }];
        writes.extend(h.iter().filter(|o| o.write && o.global == g).cloned());
        for r in h.iter().filter(|o| !o.write && o.global == g && o.end != u64::MAX) {
            reads += 1;
            let w = match writes.iter().find(|w| w.value == r.value) {
                Some(w) => w,
                None => report::violation(
                    "C15/global-read/value-never-written",
                    format!("t{} read g{} = {} which nobody wrote", r.thread, g, r.value),
                ),
            };
            if w.begin > r.end {
                report::violation(
                    "C15/global-read/value-from-the-future",
                    format!("t{} read g{} = {} at [{},{}], the write began at {}", r.thread, g, r.value, r.begin, r.end, w.begin),
                );
            }
            if w.end > r.begin {
                concurrent += 1;
            }
            for w2 in writes.iter() {
                if w2.value != w.value && w2.end != u64::MAX && w.end < w2.begin && w2.end < r.begin {
                    report::violation(
                        &format!("C15/stale-global-read/{}", *TIER.lock().unwrap()),
                        format!(
                            "t{} read g{} = {} during [{},{}], but t{} had completed (set! g{} {}) during [{},{}], entirely after the write of {} by t{} during [{},{}]: a completed assignment was not seen by a later read",
                            r.thread, g, r.value, r.begin, r.end, w2.thread, g, w2.value, w2.begin, w2.end, w.value, w.thread, w.begin, w.end
                        ),
                    );
                }
            }
        }
    }
    report::probe_n("lin.reads-checked", reads);
    report::probe_n("lin.reads-concurrent-with-their-write", concurrent);
}

pub struct Threads {
    pub prop: &'static str,
    pub label: &'static str,
}

pub static THREADS_C15: Threads = Threads { prop: "C15", label: "c15-threads" };
pub static THREADS_C16: Threads = Threads { prop: "C16", label: "c16-threads" };

const PRELUDE: &str = r#"
(define (work n) (let lp ((i 0) (acc 0)) (if (= i n) acc (lp (+ i 1) (+ acc i)))))
(define (alloc n) (let lp ((i 0) (acc '())) (if (= i n) (apply + (map unbox acc)) (lp (+ i 1) (cons (box i) acc)))))
(define (valloc n) (let lp ((i 0) (acc '())) (if (= i n) (apply + (map (lambda (v) (mut-vector-ref v 0)) acc)) (lp (+ i 1) (cons (mutable-vector i (box i)) acc)))))
(define (check-read v allowed) (if (member v allowed) 0 (- 0 1 v)))
(define (seqs-of msgs k) (map cadr (filter (lambda (m) (= (car m) k)) msgs)))
"#;

fn sum_to(n: i64) -> i64 {
    n * (n - 1) / 2
}

struct Built {
    src: String,
    expect: String,
}

/// Build the program text and its expected rendering from the workload.
fn build(w: &Value) -> Built {
    let threads = w["threads"].as_array().cloned().unwrap_or_default();
    let nglob = w["globals"].as_u64().unwrap_or(2) as usize;
    let mut src = String::new();
    for g in 0..nglob {
        src.push_str(&format!("(define g{} 0)\n", g));
    }
    src.push_str("(define chs (channels/new))\n(define tx (channels-sender chs))\n(define rx (channels-receiver chs))\n(define mtx (mutex))\n(define cnt (box 0))\n");
    // every value ever written to each global
    let mut written: Vec<Vec<i64>> = vec![vec![0]; nglob];
    let mut last_write: Vec<Vec<i64>> = vec![vec![]; nglob];
    for (k, t) in threads.iter().enumerate() {
        let mut lw: Vec<Option<i64>> = vec![None; nglob];
        for op in t["ops"].as_array().into_iter().flatten() {
            if op[0] == "suspend" && k == 0 && threads.len() >= 2 && (op[1].as_i64().unwrap_or(0) / 7) % 4 == 2 {
                let g = op[1].as_u64().unwrap() as usize % nglob;
                let v = op[2].as_i64().unwrap();
                written[g].push(v);
                lw[g] = Some(v);
            }
            if op[0] == "set" || op[0] == "boxed" {
                let g = op[1].as_u64().unwrap() as usize % nglob;
                let v = op[2].as_i64().unwrap();
                written[g].push(v);
                lw[g] = Some(v);
            }
        }
        for g in 0..nglob {
            if let Some(v) = lw[g] {
                last_write[g].push(v);
            }
        }
    }
    let allowed = |g: usize| -> String {
        let v: Vec<String> = written[g].iter().map(|x| x.to_string()).collect();
        format!("'({})", v.join(" "))
    };
    let mut total_msgs = 0usize;
    let mut locks = 0i64;
    let mut expects: Vec<String> = Vec::new();
    let mut sends_per_thread: Vec<usize> = Vec::new();
    for k in 0..threads.len() {
        src.push_str(&format!(
            "(define hold-{k} (mutable-vector (box {a}) (box {b}) (box {c}) (box {d})))\n(define gb-{k} (box 0))\n",
            k = k,
            a = 7000 + 10 * k,
            b = 7001 + 10 * k,
            c = 7002 + 10 * k,
            d = 7003 + 10 * k
        ));
    }
    for (k, t) in threads.iter().enumerate() {
        // thread 0 is main
        let mut body = String::new();
        let mut vals: Vec<String> = Vec::new();
        let mut seq = 0usize;
        for (i, op) in t["ops"].as_array().into_iter().flatten().enumerate() {
            let name = op[0].as_str().unwrap_or("");
            let a = op[1].as_i64().unwrap_or(1);
            let var = format!("r{}", i);
            let (expr, val): (String, String) = match name {
                "work" => (format!("(work {})", a), sum_to(a).to_string()),
                "alloc" => (format!("(alloc {})", a), sum_to(a).to_string()),
                "valloc" => (format!("(valloc {})", a), sum_to(a).to_string()),
                "set" => {
                    let g = op[1].as_u64().unwrap() as usize % nglob;
                    (format!("(let ((lt (lin-b 0 {g} {v}))) (set! g{g} {v}) (lin-e lt {v}) 0)", g = g, v = op[2]), "0".into())
                }
                "boxed" => {
                    // an assignment made by a closure that runs on a forked thread state
                    // (what FFI callbacks use): seen by everybody afterwards
                    let g = op[1].as_u64().unwrap() as usize % nglob;
                    (format!("(let ((bf (#%closure->boxed-function (lambda () (let ((lt (lin-b 0 {g} {v}))) (set! g{g} {v}) (lin-e lt {v}) 0))))) (bf))", g = g, v = op[2]), "0".into())
                }
                "shuffle" => {
                    // the only reference to a box moves from a global container onto the
                    // stack and back, with allocation in between: reachable at every
                    // instant, but through a different root before and after
                    let i = a.rem_euclid(4);
                    (
                        format!(
                            "(let ((b (mut-vector-ref hold-{k} {i}))) (vector-set! hold-{k} {i} #f) (alloc 2) (let ((v1 (unbox b))) (vector-set! hold-{k} {i} b) (alloc 2) (+ v1 (unbox (mut-vector-ref hold-{k} {i})))))",
                            k = k,
                            i = i
                        ),
                        (2 * (7000 + 10 * k as i64 + i)).to_string(),
                    )
                }
                "read" => {
                    let g = op[1].as_u64().unwrap() as usize % nglob;
                    (format!("(let* ((lt (lin-b 1 {g} 0)) (lv g{g})) (lin-e lt lv) (check-read lv {a}))", g = g, a = allowed(g)), "0".into())
                }
                "send" => {
                    let e = format!("(begin (channel/send tx (list {} {})) 0)", k, seq);
                    seq += 1;
                    total_msgs += 1;
                    (e, "0".into())
                }
                "lock" => {
                    locks += 1;
                    ("(let ((gd (lock-acquire! mtx))) (set-box! cnt (+ 1 (unbox cnt))) (lock-release! gd) 0)".to_string(), "0".into())
                }
                "gc" => ("(begin (#%gc-collect) 0)".to_string(), "0".into()),
                // a fresh box, referenced from nowhere else, is assigned to a global of
                // this thread: while the assignment waits for the heap lock (another
                // thread may be collecting) the box must stay visible to the collector
                "setbox" => {
                    let v = op[2].as_i64().unwrap_or(0);
                    (format!("(begin (set! gb-{k} (box {v})) (alloc 2) (set! gb-{k} (box (+ 1 (unbox gb-{k})))) (valloc 2) (unbox gb-{k}))", k = k, v = v), (v + 1).to_string())
                }
                "suspend" => {
                    // main suspends one of its threads, keeps stopping the world
                    // (allocation, collection, assignment of a global) and resumes it:
                    // a suspended thread is blocked by the script's own logic, the
                    // collections and assignments of the others are not
                    let n = threads.len();
                    if k != 0 || n < 2 {
                        ("0".to_string(), "0".into())
                    } else {
                        let victim = 1 + (a as usize) % (n - 1);
                        let g = (a as usize) % nglob;
                        let v = op[2].as_i64().unwrap_or(0);
                        let inner = match (a / 7) % 4 {
                            0 => format!("(alloc {})", 3 + a % 9),
                            1 => "(begin (#%gc-collect) 0)".to_string(),
                            2 => format!("(let ((lt (lin-b 0 {g} {v}))) (set! g{g} {v}) (lin-e lt {v}) 0)", g = g, v = v),
                            _ => format!("(+ (work {}) (valloc 3))", 5 + a % 20),
                        };
                        let val = match (a / 7) % 4 {
                            0 => sum_to(3 + a % 9),
                            3 => sum_to(5 + a % 20) + 3,
                            _ => 0,
                        };
                        (format!("(begin (thread-suspend t{victim}) (let ((sv {inner})) (thread-resume t{victim}) sv))", victim = victim, inner = inner), val.to_string())
                    }
                }
                "tls" => (
                    format!("(let ((t (make-tls (box {}))) ) (alloc 4) (set-tls! t (box (+ 1 (unbox (get-tls t))))) (valloc 3) (unbox (get-tls t)))", a),
                    (a + 1).to_string(),
                ),
                "nested" => (
                    format!("(thread-join! (spawn-native-thread (lambda () (+ (work {}) (alloc 5)))))", a),
                    (sum_to(a) + 10).to_string(),
                ),
                "hof" => (
                    format!("(apply + (map (lambda (x) (alloc x)) (list 2 3 {})))", a.min(12)),
                    (sum_to(2) + sum_to(3) + sum_to(a.min(12))).to_string(),
                ),
                _ => ("0".to_string(), "0".into()),
            };
            body.push_str(&format!("({} {})", var, expr));
            vals.push(val);
        }
        sends_per_thread.push(seq);
        let names: Vec<String> = (0..vals.len()).map(|i| format!("r{}", i)).collect();
        let fun = format!("(define (body-{k}) (let* ({body}) (list {k} {names})))\n", k = k, body = body, names = names.join(" "));
        src.push_str(&fun);
        expects.push(format!("({}{}{})", k, if vals.is_empty() { "" } else { " " }, vals.join(" ")));
    }
    // main: spawn, run own body, receive everything through map, join in order
    let n = threads.len();
    let order: Vec<usize> = w["join_order"].as_array().map(|a| a.iter().map(|x| x.as_u64().unwrap() as usize).collect()).unwrap_or_else(|| (1..n).collect());
    for k in 1..n {
        src.push_str(&format!("(define t{k} (spawn-native-thread (lambda () (body-{k}))))\n", k = k));
    }
    src.push_str("(define main-result (body-0))\n");
    // how main reaches the blocking primitives: directly inside a callback,
    // through apply, from a function whose tail call is the primitive, or in a
    // named-let loop
    let recv_via = w["recv_via"].as_u64().unwrap_or(0);
    let recv_expr = match recv_via {
        1 => "(apply channel/recv (list rx))",
        2 => "(recv-in-tail-position)",
        _ => "(channel/recv rx)",
    };
    src.push_str("(define (recv-in-tail-position) (channel/recv rx))\n");
    if recv_via == 3 {
        src.push_str(&format!("(define msgs (let lp ((i 0) (acc '())) (if (= i {}) (reverse acc) (lp (+ i 1) (cons (channel/recv rx) acc)))))\n", total_msgs));
    } else {
        src.push_str(&format!("(define msgs (map (lambda (i) {}) (range 0 {})))\n", recv_expr, total_msgs));
    }
    let join_via = w["join_via"].as_u64().unwrap_or(0);
    let mut joins = String::new();
    for k in order.iter() {
        match join_via {
            1 => joins.push_str(&format!(" (apply thread-join! (list t{}))", k)),
            2 => joins.push_str(&format!(" (car (map thread-join! (list t{})))", k)),
            _ => joins.push_str(&format!(" (thread-join! t{})", k)),
        }
    }
    src.push_str(&format!("(define joined (list{}))\n", joins));
    let mut seqs = String::new();
    for k in 0..n {
        seqs.push_str(&format!(" (seqs-of msgs {})", k));
    }
    let mut gl = String::new();
    for g in 0..nglob {
        let lw: Vec<String> = if last_write[g].is_empty() { vec!["0".into()] } else { last_write[g].iter().map(|x| x.to_string()).collect() };
        gl.push_str(&format!(" (let* ((lt (lin-b 1 {g} 0)) (lv g{g})) (lin-e lt lv) (check-read lv '({l})))", g = g, l = lw.join(" ")));
    }
    src.push_str(&format!("(list main-result joined (list{}) (unbox cnt) (list{}))\n", seqs, gl));
    // expected rendering
    let joined_exp: Vec<String> = order.iter().map(|k| expects[*k].clone()).collect();
    let seq_exp: Vec<String> = sends_per_thread
        .iter()
        .map(|c| format!("({})", (0..*c).map(|i| i.to_string()).collect::<Vec<_>>().join(" ")))
        .collect();
    let gl_exp: Vec<String> = (0..nglob).map(|_| "0".to_string()).collect();
    let expect = format!(
        "({} ({}) ({}) {} ({}))",
        expects[0],
        joined_exp.join(" "),
        seq_exp.join(" "),
        locks,
        gl_exp.join(" ")
    );
    Built { src, expect }
}

fn gen_workload(rng: &mut Rng, prop: &str, thorough: bool) -> Value {
    let jit = rng.chance(1, 2);
    let nthreads = 1 + if rng.chance(1, 4) { rng.range(4, 7) } else { rng.range(1, 3) } as usize;
    let (gn, gd) = *rng.pick(&[(0u64, 1u64), (0, 1), (1, 16), (1, 4), (1, 1)]);
    let nglob = rng.range(1, 3);
    // swarm: which operation kinds this run uses
    // "boxed" (an assignment made inside a #%closure->boxed-function, i.e. on a
    // thread state forked by make_thread) is rendered but not generated: the
    // forked state runs on its parent's OS thread, which the monitors' model of
    // one script thread per simulated thread does not represent, and the
    // unchanged tree blocks in un-hooked code on that path (DESIGN.md §12, C15-5)
    let all = ["work", "alloc", "valloc", "set", "read", "send", "lock", "gc", "tls", "nested", "hof", "shuffle", "shuffle", "suspend", "setbox", "setbox"];
    let mut kinds: Vec<&str> = all.to_vec();
    rng.shuffle(&mut kinds);
    kinds.truncate(rng.range(2, 7) as usize);
    // bias: C15 runs want world stops, C16 runs want blocking
    if prop == "C15" && !kinds.contains(&"set") && rng.chance(2, 3) {
        kinds.push("set");
    }
    if prop == "C15" && kinds.contains(&"set") && !kinds.contains(&"read") && rng.chance(2, 3) {
        kinds.push("read");
    }
    if prop == "C16" && !kinds.contains(&"send") && rng.chance(1, 2) {
        kinds.push("send");
    }
    let mut uniq = 1000i64;
    let mut threads = Vec::new();
    let maxops = if thorough { 10 } else { 6 };
    for _k in 0..nthreads {
        let n = rng.range(1, maxops);
        let mut ops = Vec::new();
        for _ in 0..n {
            let kind = *rng.pick(&kinds);
            let amount = match kind {
                "alloc" | "valloc" => {
                    if gn == 1 && gd == 1 {
                        rng.range(1, 6)
                    } else {
                        rng.range(2, 40)
                    }
                }
                "work" => rng.range(2, 60),
                "nested" => rng.range(2, 20),
                "hof" => rng.range(2, 10),
                "tls" => rng.range(1, 50),
                "shuffle" => rng.below(4),
                "suspend" => rng.below(1000),
                _ => rng.below(3),
            } as i64;
            if kind == "set" || kind == "boxed" || kind == "suspend" || kind == "setbox" {
                uniq += 1;
                ops.push(json!([kind, amount, uniq]));
            } else {
                ops.push(json!([kind, amount, 0]));
            }
        }
        threads.push(json!({"ops": ops}));
    }
    let mut order: Vec<usize> = (1..nthreads).collect();
    rng.shuffle(&mut order);
    let recv_via = *rng.pick(&[0u64, 0, 1, 2, 3]);
    let join_via = *rng.pick(&[0u64, 0, 1, 2]);
    json!({"jit": jit, "gc": [gn, gd], "globals": nglob, "threads": threads, "join_order": order, "recv_via": recv_via, "join_via": join_via})
}

static TIER: std::sync::Mutex<&'static str> = std::sync::Mutex::new("jit");
/// How main reaches its blocking primitives in this run (part of deadlock signatures).
static PATHS: std::sync::Mutex<String> = std::sync::Mutex::new(String::new());

/// Signature of a deadlock: which blocked threads are not published (a stopper
/// can never see them stop), and where the stopper spins. Published blocked
/// threads and parked threads are victims, not causes.
fn deadlock_signature(desc: &str) -> String {
    let tier = *TIER.lock().unwrap();
    let mut unpublished: Vec<String> = Vec::new();
    let mut spinners: Vec<String> = Vec::new();
    let mut blocked_published: Vec<String> = Vec::new();
    for p in desc.split(' ') {
        let mut it = p.split(':');
        let t = it.next().unwrap_or("");
        let st = it.next().unwrap_or("");
        let tid: usize = t.trim_start_matches('t').parse().unwrap_or(99);
        let site = st.split('@').nth(1).unwrap_or("").replace("vm.", "");
        if st.starts_with("spinning@") {
            spinners.push(site);
        } else if st.starts_with("blocked@") && site == "park" {
            // parked and published: stopped for a world stop (a victim); parked
            // without having published itself: a stopper waits for it forever
            if !vmh::is_published(tid) {
                unpublished.push("parked-unpublished".to_string());
            }
        } else if st.starts_with("blocked@") {
            if vmh::is_published(tid) {
                blocked_published.push(site);
            } else {
                unpublished.push(site);
            }
        }
    }
    unpublished.sort();
    unpublished.dedup();
    spinners.sort();
    spinners.dedup();
    blocked_published.sort();
    blocked_published.dedup();
    let paths = PATHS.lock().unwrap().clone();
    // only main's receives and joins go through another path than a direct call
    let via = if unpublished.iter().any(|u| u == "channel-recv" || u == "thread-join") && desc.contains("t0:blocked@") {
        format!("/paths={}", paths)
    } else {
        String::new()
    };
    if spinners.is_empty() {
        // nobody spins: a plain wait-for cycle among blocking primitives
        let mut all = unpublished.clone();
        all.extend(blocked_published);
        all.sort();
        all.dedup();
        return format!("C16/deadlock/{}/no-stopper/blocked={}", tier, all.join("+"));
    }
    format!(
        "C16/deadlock/{}/unpublished={}/stopper-at={}{}",
        tier,
        if unpublished.is_empty() { "none".to_string() } else { unpublished.join("+") },
        spinners.join("+"),
        via
    )
}

fn on_stop(s: sched::Stop) -> ! {
    match s {
        sched::Stop::Deadlock(d) => {
            let sig = deadlock_signature(&d);
            report::violation(&sig, format!("no simulated thread can make progress: {}", d))
        }
        sched::Stop::Budget(d) => report::violation(
            "C16/no-progress-within-step-budget",
            format!("the run did not finish within its step budget: {}", d),
        ),
        sched::Stop::ReplayDiverged(d) => report::stop_is_harness_error(sched::Stop::ReplayDiverged(d)),
    }
}

fn panic_class(msg: &str) -> Option<String> {
    // a host panic under threads: attribute to C15 when it is the global
    // table being swapped under a running thread, otherwise to C16
    if msg.contains("hook called by a thread without the token") || msg.contains("prototype engine not built") || msg.contains("too many simulated threads") {
        return None;
    }
    let short: String = msg.chars().take(70).map(|c| if c.is_ascii_digit() { '#' } else { c }).collect();
    let short = short.replace(' ', "-");
    let tier = *TIER.lock().unwrap();
    if msg.contains("index out of bounds") {
        Some(format!("C15/host-panic/{}/{}", tier, short))
    } else if msg.contains("called `Option::unwrap()` on a `None` value") {
        // the marker met a reference to a slot that no longer exists: some
        // stack was not scanned by an earlier collection
        if msg.contains("FreeList") && msg.contains("allocate") {
            // the allocator's count of free slots says there is one, the mark bits say there is none
            Some(format!("C15/host-panic/{}/free-slot-count-disagrees-with-mark-bits-in-allocate", tier))
        } else {
            Some(format!("C15/host-panic/{}/dangling-slot-during-mark", tier))
        }
    } else {
        Some(format!("C16/host-panic/{}/{}", tier, short))
    }
}

impl Scenario for Threads {
    fn name(&self) -> &'static str {
        self.label
    }
    fn property(&self) -> &'static str {
        self.prop
    }
    fn setup(&self) {
        vmh::build_prototypes(true, true);
    }
    fn default_runs(&self, thorough: bool) -> u64 {
        if thorough { 200_000 } else { 3_000 }
    }
    fn timeout_ms(&self) -> u64 {
        60_000
    }
    fn hang_signature(&self) -> Option<String> {
        None
    }

    fn child(&self, spec: &Spec) {
        let mut wrng = Rng::derive(spec.seed, spec.index, if self.prop == "C15" { 1 } else { 11 });
        let w = if spec.overrides.is_null() { gen_workload(&mut wrng, self.prop, spec.tier_thorough) } else { spec.overrides.clone() };
        report::set_workload(w.clone());
        if spec.gen_only {
            return;
        }
        let built = build(&w);
        *TIER.lock().unwrap() = if w["jit"].as_bool().unwrap_or(true) { "jit" } else { "nojit" };
        *PATHS.lock().unwrap() = format!(
            "recv:{},join:{}",
            match w["recv_via"].as_u64().unwrap_or(0) { 1 => "apply", 2 => "tail-call", 3 => "loop", _ => "map-callback" },
            match w["join_via"].as_u64().unwrap_or(0) { 1 => "apply", 2 => "map", _ => "direct" }
        );
        let mut faults = vmh::default_faults(spec.seed, spec.index);
        faults.gc_num = w["gc"][0].as_u64().unwrap_or(0);
        faults.gc_den = w["gc"][1].as_u64().unwrap_or(1);
        faults.heap_chunk = 256;
        let mut engine = vmh::start(
            spec,
            vmh::VmOptions {
                property: "C15",
                jit: w["jit"].as_bool().unwrap_or(true),
                faults,
                yield_at_dispatch: false,
                max_steps: 3_000_000,
                expected_steps: 20_000,
                on_stop,
                panic_class,
            },
        );
        // a live reference to a slot that a collection freed: some thread's roots
        // were not seen by a collection
        vmh::set_stale_is_violation(true);
        if let Err(e) = vmh::eval(&mut engine, PRELUDE) {
            report::harness_error(format!("prelude failed: {}", e));
        }
        engine.register_fn("lin-b", lin_begin);
        engine.register_fn("lin-e", lin_end);
        vmh::set_yield_at_dispatch(true);
        vmh::set_context(*TIER.lock().unwrap());
        let res = vmh::eval(&mut engine, &built.src);
        vmh::set_yield_at_dispatch(false);
        let nthreads = w["threads"].as_array().map(|a| a.len()).unwrap_or(1);
        report::set_nontrivial(nthreads >= 2);
        match res {
            Ok(v) => {
                let got = v.last().cloned().unwrap_or_default();
                if got != built.expect {
                    // which part differs decides the property
                    let sig = classify_mismatch(&got, &built.expect);
                    report::violation(&sig, format!("program evaluated to {} but the model says {}", got, built.expect));
                }
            }
            Err(e) => {
                let short: String = e.chars().take(60).map(|c| if c.is_ascii_digit() { '#' } else { c }).collect();
                report::violation(
                    &format!("C16/unexpected-error/{}", short.replace(' ', "-")),
                    format!("the program failed: {}", e),
                );
            }
        }
        let stale = vmh::STALE_SLOTS.load(std::sync::atomic::Ordering::SeqCst);
        if stale > 0 {
            report::probe_n("stale-slot-touched", stale);
        }
        check_register_histories(w["globals"].as_u64().unwrap_or(2) as usize);
        // every script thread has been joined: the allocator's count of free
        // slots must agree with the mark bits the collections left behind
        // (a count that is too high ends in `FreeList::allocate` finding no
        // free slot where it was told there is one)
        let hs = engine.verif_heap_stats();
        if hs.value_free_accounted != hs.value_free_actual || hs.vector_free_accounted != hs.vector_free_actual {
            report::violation(
                &format!("C15/free-slot-accounting-after-threaded-collections/{}", *TIER.lock().unwrap()),
                format!("after collections that ran while other script threads were stopped the free-slot counters disagree with the mark bits: {:?}", hs),
            );
        }
    }

    fn shrink(&self, w: &Value) -> Vec<Value> {
        let mut out = Vec::new();
        let n = w["threads"].as_array().map(|a| a.len()).unwrap_or(0);
        // drop a whole thread (not main)
        for k in (1..n).rev() {
            let mut c = w.clone();
            c["threads"].as_array_mut().unwrap().remove(k);
            let order: Vec<Value> = w["join_order"]
                .as_array()
                .unwrap()
                .iter()
                .filter(|x| x.as_u64().unwrap() as usize != k)
                .map(|x| {
                    let v = x.as_u64().unwrap() as usize;
                    json!(if v > k { v - 1 } else { v })
                })
                .collect();
            c["join_order"] = Value::Array(order);
            out.push(c);
        }
        for k in 0..n {
            let m = w["threads"][k]["ops"].as_array().map(|a| a.len()).unwrap_or(0);
            for i in (0..m).rev() {
                let mut c = w.clone();
                c["threads"][k]["ops"].as_array_mut().unwrap().remove(i);
                out.push(c);
            }
        }
        if w["gc"][0].as_u64().unwrap_or(0) != 0 {
            let mut c = w.clone();
            c["gc"] = json!([0, 1]);
            out.push(c);
        }
        out
    }

    fn rule(&self) -> String {
        "each evaluation = one forked run of a generated program: main + 1-7 script threads (spawn-native-thread), each a seeded sequence of 1-10 operations out of {computation, box allocation, vector allocation, set! of a shared global with a unique value, checked read of a shared global, channel send, mutex section, explicit collection, thread-local storage, nested spawn+join, allocation inside map, assignment of a fresh box to a global, main suspending one of its threads while it allocates / collects / assigns a global and resuming it}; main receives every message through map and joins in a seeded order; forced full collections at rate {0,1/16,1/4,1}, JIT on/off; the token scheduler decides at every instruction dispatch and inside every handshake window (publish, after-finish, before-retract, stop/resume, scan begin/end, heap lock taken); non-trivial = at least 2 script threads; distinct = distinct (workload, event trace)".into()
    }
    fn assumptions(&self) -> Vec<String> {
        vec![
            "sequentially consistent interleavings at hook granularity; weak-memory outcomes of the Relaxed handshake accesses are not modelled".into(),
            "native-compiled code is preempted where it re-enters the dispatch loop or a hooked helper; steel-rc sub-operations are not interleaved here (C05 does that)".into(),
            "the marker pool runs unscheduled while every script thread is parked or waiting for the token".into(),
        ]
    }
    fn components(&self) -> Value {
        json!({"real": ["VM", "safepoint handshake", "heap lock", "collector", "global table swap", "spawn/join", "channels", "mutexes", "JIT (per run on/off)", "steel-rc"],
               "simulated": ["OS scheduler (token scheduler)", "park/unpark (permits)", "blocking waits (polled under the scheduler)", "collection timing"]})
    }
}

fn classify_mismatch(got: &str, expect: &str) -> String {
    // the rendering is (main joined seqs cnt globals)
    let cut = |s: &str| -> Vec<String> {
        // split top-level elements
        let mut out = Vec::new();
        let mut depth = 0i32;
        let mut cur = String::new();
        for c in s.chars() {
            match c {
                '(' => {
                    depth += 1;
                    if depth > 1 {
                        cur.push(c);
                    }
                }
                ')' => {
                    depth -= 1;
                    if depth >= 1 {
                        cur.push(c);
                    }
                    if depth == 1 {
                        out.push(cur.clone());
                        cur.clear();
                    }
                }
                ' ' if depth == 1 => {
                    if !cur.is_empty() {
                        out.push(cur.clone());
                        cur.clear();
                    }
                }
                _ => cur.push(c),
            }
        }
        if !cur.is_empty() {
            out.push(cur);
        }
        out
    };
    let (g, e) = (cut(got), cut(expect));
    if g.len() == 5 && e.len() == 5 {
        if g[4] != e[4] {
            return "C15/global-value-not-a-last-write".into();
        }
        if g[0] != e[0] || g[1] != e[1] {
            // a checked read saw a value nobody wrote, or a computation is off
            if g[0].contains('-') || g[1].contains('-') {
                return "C15/global-read-of-unwritten-value".into();
            }
            return "C16/thread-result-wrong".into();
        }
        if g[2] != e[2] {
            return "C16/channel-order-or-loss".into();
        }
        if g[3] != e[3] {
            return "C16/mutex-section-lost-update".into();
        }
    }
    "C16/result-shape".into()
}
