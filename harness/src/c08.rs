//! C08 — continuations, dynamic-wind and handlers (fault / escape slice).
//!
//! Generated nests of dynamic-wind / with-handler / call/cc (escape and
//! re-entry) / calls through higher-order natives, with fault points that raise
//! at a chosen dynamic occurrence (Scheme `error`, a primitive's type error, or
//! a host function returning `Err`), forced collections while continuations are
//! open. Oracle: a small evaluator of the same tree gives the exact value or
//! error and the exact trace of wind/handler events (so: balanced, properly
//! nested, closed at the end; the nearest enclosing handler receives the fault).

use crate::report;
use crate::rng::Rng;
use crate::runner::{Scenario, Spec};
use crate::vmh;
use serde_json::{json, Value};
use steel::rerrs::{ErrorKind, SteelErr};
use steel::SteelVal;

pub struct C08;

const PRELUDE: &str = r#"
(define tr (box '()))
(define (trace! x) (set-box! tr (cons x (unbox tr))) 0)
(define (show) (let ((r (reverse (unbox tr)))) (set-box! tr '()) r))
(define armed (box -1))
(define raise-kind (box 0))
(define (fault-point! f)
  (if (= f (unbox armed))
      (cond ((= (unbox raise-kind) 0) (error "injected"))
            ((= (unbox raise-kind) 1) (car 5))
            ((= (unbox raise-kind) 2) (host-fail))
            (else (vector-ref (vector 1) 9)))
      0))
"#;

fn host_fail(_args: &[SteelVal]) -> steel::rvals::Result<SteelVal> {
    Err(SteelErr::new(ErrorKind::Generic, "host function failed (injected)".to_string()))
}

struct G<'a> {
    rng: &'a mut Rng,
    next_id: i64,
    faults: Vec<i64>,
    escapes: Vec<i64>, // enclosing call/cc ids
}

impl<'a> G<'a> {
    fn id(&mut self) -> i64 {
        self.next_id += 1;
        self.next_id
    }
    fn gen(&mut self, depth: u32) -> Value {
        if depth == 0 {
            return match self.rng.below(4) {
                0 if !self.escapes.is_empty() => {
                    let c = *self.rng.pick(&self.escapes);
                    json!(["escape", c, self.rng.range(1, 90)])
                }
                1 => {
                    let f = self.id();
                    self.faults.push(f);
                    json!(["fault", f, ["n", self.rng.range(1, 9)]])
                }
                _ => json!(["n", self.rng.range(1, 9)]),
            };
        }
        match self.rng.below(17) {
            14 | 15 => json!(["xduce", self.gen(depth - 1)]),
            16 => json!(["spawn", self.gen(depth - 1)]),
            0 => json!(["add", self.gen(depth - 1), self.gen(depth - 1)]),
            1 => json!(["tr", self.id(), self.gen(depth - 1)]),
            2 | 3 => json!(["wind", self.id(), self.gen(depth - 1)]),
            4 | 5 => {
                let j = self.id();
                // the handler body runs outside the extent of the protected expression
                let saved = std::mem::take(&mut self.escapes);
                let mut hb = self.gen(depth.saturating_sub(2));
                if self.rng.chance(1, 4) {
                    // the handler itself fails: the error goes to the next handler out
                    hb = json!(["boom", hb]);
                }
                self.escapes = saved;
                json!(["handle", j, hb, self.gen(depth - 1)])
            }
            6 => {
                let f = self.id();
                self.faults.push(f);
                json!(["fault", f, self.gen(depth - 1)])
            }
            7 | 8 => {
                let c = self.id();
                self.escapes.push(c);
                let body = self.gen(depth - 1);
                self.escapes.pop();
                json!(["callcc", c, body])
            }
            9 => json!(["let", self.gen(depth - 1), self.gen(depth - 1)]),
            10 => json!(["hof", self.gen(depth - 1)]),
            11 => json!(["apply", self.gen(depth - 1)]),
            12 => json!(["tail", self.gen(depth - 1)]),
            _ => json!(["gc", self.gen(depth - 1)]),
        }
    }
}

fn render(e: &Value) -> String {
    let a = e.as_array().unwrap();
    match a[0].as_str().unwrap() {
        "n" => a[1].to_string(),
        "add" => format!("(+ {} {})", render(&a[1]), render(&a[2])),
        "tr" => format!("(begin (trace! {}) {})", a[1], render(&a[2])),
        "wind" => format!(
            "(dynamic-wind (lambda () (trace! {})) (lambda () {}) (lambda () (trace! {})))",
            1000 + a[1].as_i64().unwrap(),
            render(&a[2]),
            2000 + a[1].as_i64().unwrap()
        ),
        // the handler must be applied to the error, not to whatever else lies on the stack
        "handle" => format!(
            "(with-handler (lambda (e) (begin (trace! (if (error-object? e) {} -77)) {})) {})",
            3000 + a[1].as_i64().unwrap(),
            render(&a[2]),
            render(&a[3])
        ),
        "fault" => format!("(begin (fault-point! {}) {})", a[1], render(&a[2])),
        "callcc" => format!("(call/cc (lambda (k{}) {}))", a[1], render(&a[2])),
        "escape" => format!("(k{} {})", a[1], a[2]),
        "boom" => format!("(begin (error \"raised by a handler\") {})", render(&a[1])),
        "let" => format!("(let ((x {})) (+ x {}))", render(&a[1]), render(&a[2])),
        "hof" => format!("(car (map (lambda (q) {}) (list 0)))", render(&a[1])),
        // a callback invoked by a native procedure: the VM is re-entered from Rust
        "xduce" => format!("(car (transduce (list 0) (mapping (lambda (q) {})) (into-list)))", render(&a[1])),
        "apply" => format!("(apply (lambda (a) (+ a {})) (list 1))", render(&a[1])),
        "tail" => format!("((lambda () {}))", render(&a[1])),
        "gc" => format!("(begin (#%gc-collect) {})", render(&a[1])),
        // a script thread is started and joined while the enclosing continuations
        // are open and wind extents are entered (starting a thread copies the
        // starter's state and closes its open continuation marks)
        "spawn" => format!("(+ (- (thread-join! (spawn-native-thread (lambda () (+ 1 1)))) 2) {})", render(&a[1])),
        _ => "0".to_string(),
    }
}

#[derive(Debug, Clone, PartialEq)]
enum Unwind {
    Fault(i64),
    Escape(i64, i64),
}

fn model(e: &Value, armed: i64, trace: &mut Vec<i64>) -> Result<i64, Unwind> {
    let a = e.as_array().unwrap();
    match a[0].as_str().unwrap() {
        "n" => Ok(a[1].as_i64().unwrap()),
        "add" => {
            let x = model(&a[1], armed, trace)?;
            let y = model(&a[2], armed, trace)?;
            Ok(x + y)
        }
        "tr" => {
            trace.push(a[1].as_i64().unwrap());
            model(&a[2], armed, trace)
        }
        "wind" => {
            let i = a[1].as_i64().unwrap();
            trace.push(1000 + i);
            let r = model(&a[2], armed, trace);
            trace.push(2000 + i);
            r
        }
        "handle" => {
            let j = a[1].as_i64().unwrap();
            match model(&a[3], armed, trace) {
                Err(Unwind::Fault(_)) => {
                    trace.push(3000 + j);
                    model(&a[2], armed, trace)
                }
                other => other,
            }
        }
        "fault" => {
            let f = a[1].as_i64().unwrap();
            if f == armed {
                Err(Unwind::Fault(f))
            } else {
                model(&a[2], armed, trace)
            }
        }
        "callcc" => {
            let c = a[1].as_i64().unwrap();
            match model(&a[2], armed, trace) {
                Err(Unwind::Escape(c2, n)) if c2 == c => Ok(n),
                other => other,
            }
        }
        "escape" => Err(Unwind::Escape(a[1].as_i64().unwrap(), a[2].as_i64().unwrap())),
        "boom" => Err(Unwind::Fault(-2)),
        "let" => {
            let x = model(&a[1], armed, trace)?;
            let y = model(&a[2], armed, trace)?;
            Ok(x + y)
        }
        "hof" | "tail" | "gc" | "xduce" | "spawn" => model(&a[1], armed, trace),
        "apply" => Ok(1 + model(&a[1], armed, trace)?),
        _ => Ok(0),
    }
}

fn gen_workload(rng: &mut Rng, thorough: bool) -> Value {
    let jit = rng.chance(1, 2);
    let (gn, gd) = *rng.pick(&[(0u64, 1u64), (0, 1), (1, 8), (1, 1)]);
    let depth = rng.range(2, if thorough { 6 } else { 5 }) as u32;
    let mut g = G { rng, next_id: 0, faults: Vec::new(), escapes: Vec::new() };
    let tree = g.gen(depth);
    let faults = g.faults.clone();
    let raise = g.rng.below(4);
    // a re-entry template as well, in some runs
    let reenter = if g.rng.chance(1, 3) { g.rng.range(2, 4) } else { 0 };
    let reenter_depth = g.rng.range(1, 3);
    json!({"jit": jit, "gc": [gn, gd], "tree": tree, "faults": faults, "raise": raise, "reenter": reenter, "reenter_depth": reenter_depth})
}

impl Scenario for C08 {
    fn name(&self) -> &'static str {
        "c08-control"
    }
    fn property(&self) -> &'static str {
        "C08"
    }
    fn setup(&self) {
        vmh::build_prototypes(true, true);
    }
    fn default_runs(&self, thorough: bool) -> u64 {
        if thorough { 300_000 } else { 6_000 }
    }
    fn timeout_ms(&self) -> u64 {
        30_000
    }

    fn child(&self, spec: &Spec) {
        let mut wrng = Rng::derive(spec.seed, spec.index, 1);
        let w = if spec.overrides.is_null() { gen_workload(&mut wrng, spec.tier_thorough) } else { spec.overrides.clone() };
        report::set_workload(w.clone());
        if spec.gen_only {
            return;
        }
        let mut faults = vmh::default_faults(spec.seed, spec.index);
        faults.gc_num = w["gc"][0].as_u64().unwrap_or(0);
        faults.gc_den = w["gc"][1].as_u64().unwrap_or(1);
        faults.heap_chunk = 256;
        let jit = w["jit"].as_bool().unwrap_or(true);
        let tier = if jit { "jit" } else { "nojit" };
        let mut engine = vmh::start(
            spec,
            vmh::VmOptions {
                property: "C08",
                jit,
                faults,
                yield_at_dispatch: false,
                max_steps: 100_000_000,
                expected_steps: 3000,
                on_stop: report::stop_is_harness_error,
                panic_class: |m| vmh::panic_signature("C08", m),
            },
        );
        vmh::set_stale_is_violation(false);
        engine.register_value("host-fail", SteelVal::FuncV(host_fail));
        vmh::set_context("prelude");
        if let Err(e) = vmh::eval(&mut engine, PRELUDE) {
            report::harness_error(format!("prelude failed: {}", e));
        }
        let tree = w["tree"].clone();
        // the whole tree runs inside a continuation captured before it and left
        // through that continuation: an entry that the tree leaves behind on the
        // wind list has its after thunk run (again) by this final escape and shows
        // in the trace
        let src = format!("(call/cc (lambda (kend) (let ((rend {})) (kend rend))))", render(&tree));
        let mut armings: Vec<i64> = vec![-1];
        armings.extend(w["faults"].as_array().into_iter().flatten().map(|f| f.as_i64().unwrap()));
        let raise = w["raise"].as_u64().unwrap_or(0);
        let mut nontrivial = false;
        for armed in armings {
            let mut exp_trace: Vec<i64> = Vec::new();
            let exp = model(&tree, armed, &mut exp_trace);
            // does the armed fault point lie inside a handler body whose own
            // handler-expression is nested in another with-handler? (recorded defect)
            let pre_class = if armed >= 0 && fault_in_nested_handler_body(&tree, armed, 0, false) {
                "error-inside-handler-of-nested-with-handler"
            } else if escape_from_nested_handler(&tree, &mut Vec::new()) {
                "escape-from-nested-handler"
            } else if escape_crosses_native_callback(&tree, &mut Vec::new()) {
                "escape-out-of-native-callback"
            } else if escape_under_handler_in_callback_in_handler_body(&tree, &mut Vec::new()) {
                "escape-under-handler-in-native-callback-in-handler-body"
            } else {
                "general"
            };
            vmh::set_context(&format!("{}/{}", tier, pre_class));
            let _ = vmh::eval(&mut engine, &format!("(set-box! armed {})\n(set-box! raise-kind {})\n(show)", armed, raise));
            let res = vmh::eval(&mut engine, &src);
            let got_trace = vmh::eval(&mut engine, "(show)").map(|v| v.last().cloned().unwrap_or_default());
            if armed >= 0 && exp_trace.iter().any(|t| *t >= 3000) {
                report::probe("fault-reached-a-handler");
                nontrivial = true;
            }
            if exp_trace.iter().any(|t| *t >= 1000 && *t < 2000) {
                nontrivial = true;
            }
            if armed >= 0 {
                report::fault(match raise {
                    0 => "error@fault-point",
                    1 => "primitive-type-error@fault-point",
                    2 => "host_error@fault-point",
                    _ => "index-error@fault-point",
                });
            }
            let exp_trace_s = format!("({})", exp_trace.iter().map(|x| x.to_string()).collect::<Vec<_>>().join(" "));
            let handler_in_handler = armed >= 0 && fault_in_nested_handler_body(&tree, armed, 0, false);
            let class = if handler_in_handler {
                "error-inside-handler-of-nested-with-handler"
            } else if escape_from_nested_handler(&tree, &mut Vec::new()) {
                "escape-from-nested-handler"
            } else if escape_crosses_native_callback(&tree, &mut Vec::new()) {
                "escape-out-of-native-callback"
            } else if escape_under_handler_in_callback_in_handler_body(&tree, &mut Vec::new()) {
                "escape-under-handler-in-native-callback-in-handler-body"
            } else {
                "general"
            };
            match (&exp, &res) {
                (Ok(v), Ok(r)) => {
                    if r.last().map(|s| s.as_str()) != Some(v.to_string().as_str()) {
                        report::violation(
                            &format!("C08/{}/{}/wrong-value", tier, class),
                            format!("armed={} {} evaluated to {:?}, the model says {}", armed, src, r.last(), v),
                        );
                    }
                }
                (Err(Unwind::Fault(_)), Err(_)) => {}
                (Err(Unwind::Escape(..)), _) => {
                    report::harness_error(format!("generator produced an escape outside its call/cc: {}", src));
                }
                (Ok(v), Err(e)) => report::violation(
                    &format!("C08/{}/{}/unexpected-error", tier, class),
                    format!("armed={} {} failed with {}, the model says {}", armed, src, e, v),
                ),
                (Err(Unwind::Fault(f)), Ok(r)) => report::violation(
                    &format!("C08/{}/{}/error-swallowed", tier, class),
                    format!("armed={} {} returned {:?}, the model says the fault at {} reaches the top level", armed, src, r.last(), f),
                ),
            }
            match got_trace {
                Ok(t) => {
                    if t != exp_trace_s {
                        report::violation(
                            &format!("C08/{}/{}/wind-handler-trace", tier, class),
                            format!("armed={} {}: trace {} but the model says {}", armed, src, t, exp_trace_s),
                        );
                    }
                }
                Err(e) => report::violation(&format!("C08/{}/{}/trace-unreadable", tier, class), format!("(show) failed: {}", e)),
            }
            let st = engine.verif_stack_state();
            if st.stack != 0 || st.frames != 0 {
                report::violation(&format!("C08/{}/{}/stack-residue", tier, class), format!("armed={} {}: {:?}", armed, src, st));
            }
        }
        // generator-style re-entry through a wind extent
        let times = w["reenter"].as_u64().unwrap_or(0);
        if times > 0 {
            vmh::set_context(&format!("{}/reenter", tier));
            // the body sits inside 1-3 nested wind extents: every re-entry crosses all of them
            let depth = w["reenter_depth"].as_u64().unwrap_or(1).clamp(1, 3);
            let mut body = "(begin (call/cc (lambda (c) (set! k c))) (set! n (+ n 1)) n)".to_string();
            for i in (1..=depth).rev() {
                body = format!(
                    "(dynamic-wind (lambda () (trace! {})) (lambda () {}) (lambda () (trace! {})))",
                    10 * i + 1,
                    body,
                    10 * i + 2
                );
            }
            let prog = format!("(let ((k #f) (n 0)) {} (if (< n {}) (k #f) n))", body, times);
            let res = vmh::eval(&mut engine, &prog);
            let tr = vmh::eval(&mut engine, "(show)").map(|v| v.last().cloned().unwrap_or_default());
            let one_pass: Vec<String> = (1..=depth).map(|i| (10 * i + 1).to_string()).chain((1..=depth).rev().map(|i| (10 * i + 2).to_string())).collect();
            let exp_tr = format!("({})", (0..times).map(|_| one_pass.join(" ")).collect::<Vec<_>>().join(" "));
            match (res, tr) {
                (Ok(v), Ok(t)) => {
                    if v.last().map(|s| s.as_str()) != Some(times.to_string().as_str()) || t != exp_tr {
                        report::violation(
                            &format!("C08/{}/reenter/wrong-result", tier),
                            format!("{} gave {:?} with trace {}, expected {} with {}", prog, v.last(), t, times, exp_tr),
                        );
                    }
                }
                (a, b) => report::violation(&format!("C08/{}/reenter/failed", tier), format!("{} gave {:?} / {:?}", prog, a, b)),
            }
            nontrivial = true;
        }
        // a continuation whose call/cc receiver stored it and then raised: the error is
        // handled further out, and the stored continuation is re-entered afterwards
        // (twice), from outside the handler's extent but inside the same top-level form
        let raise_expr = match raise { 0 => "(error \"boom\")", 1 => "(car 5)", 2 => "(host-fail)", _ => "(vector-ref (vector 1) 9)" };
        for (shape, class) in [("call-with-exception-handler", "stored-continuation-reentered-after-error")] {
            vmh::set_context(&format!("{}/{}", tier, class));
            let protected = format!("(+ 1 (call/cc (lambda (c) (set! sk c) {})))", raise_expr);
            let handled = if shape == "with-handler" {
                format!("(with-handler (lambda (e) 'handled) {})", protected)
            } else {
                format!("(call-with-exception-handler (lambda (e) 'handled) (lambda () {}))", protected)
            };
            let prog = format!(
                "(define sk #f)\n(define sn 0)\n(define st '())\n(define (smain) (let ((r (dynamic-wind (lambda () (trace! 41)) (lambda () {}) (lambda () (trace! 42))))) (set! st (cons r st)) (set! sn (+ sn 1)) (if (< sn 3) (sk (* sn 10)) (reverse st))))\n(smain)",
                handled
            );
            let _ = vmh::eval(&mut engine, "(show)");
            let r = vmh::eval(&mut engine, &prog).map(|v| v.last().cloned().unwrap_or_default());
            let t = vmh::eval(&mut engine, "(show)").map(|v| v.last().cloned().unwrap_or_default());
            match (r, t) {
                (Ok(v), Ok(tr)) if v == "(handled 11 21)" && tr == "(41 42 41 42 41 42)" => {}
                (a, b) => report::violation(
                    &format!("C08/{}/{}/wrong-result", tier, class),
                    format!("{} gave {:?} with trace {:?}; expected (handled 11 21) and (41 42 41 42 41 42)", prog, a, b),
                ),
            }
            nontrivial = true;
        }
        // the engine is usable afterwards
        vmh::set_context("probe");
        match vmh::eval(&mut engine, "(define probe-x 5)\n(+ probe-x 1)") {
            Ok(v) if v.last().map(|s| s.as_str()) == Some("6") => {}
            other => report::violation("C08/engine-unusable-afterwards", format!("probe gave {:?}", other)),
        }
        report::set_nontrivial(nontrivial);
    }

    fn shrink(&self, w: &Value) -> Vec<Value> {
        // replace a subtree by one of its children, or by a constant
        let mut out = Vec::new();
        fn variants(e: &Value, out: &mut Vec<Value>) {
            let a = e.as_array().unwrap();
            for (i, c) in a.iter().enumerate().skip(1) {
                if c.is_array() {
                    // hoist the child
                    out.push(c.clone());
                    let mut sub = Vec::new();
                    variants(c, &mut sub);
                    for s in sub {
                        let mut e2 = e.clone();
                        e2[i] = s;
                        out.push(e2);
                    }
                }
            }
        }
        let mut vs = Vec::new();
        variants(&w["tree"], &mut vs);
        for t in vs.into_iter().take(60) {
            // keep only variants whose escapes are still inside their call/cc
            if !escapes_ok(&t, &mut Vec::new()) {
                continue;
            }
            let mut c = w.clone();
            let mut fs = Vec::new();
            collect_faults(&t, &mut fs);
            c["tree"] = t;
            c["faults"] = json!(fs);
            out.push(c);
        }
        if w["reenter"].as_u64().unwrap_or(0) > 0 {
            let mut c = w.clone();
            c["reenter"] = json!(0);
            out.push(c);
        }
        out
    }

    fn rule(&self) -> String {
        "each evaluation = one forked run: a generated expression tree (depth 2-6) over + / trace / dynamic-wind / with-handler (handler bodies are trees too) / fault points / call/cc with escapes to any enclosing continuation / let / map callback / callback of a native procedure (transduce) / apply / tail call / explicit collection; the tree is evaluated once with no fault and once per fault point with that point raising (Scheme error, primitive type error, index error, or host function Err), all on the same engine; optionally a generator-style re-entry, 2-4 times, of a body inside 1-3 nested wind extents; forced full collections at rate {0,1/8,1}, JIT on/off; oracle = a tree evaluator giving the exact value/error and the exact wind/handler trace; non-trivial = a wind extent was entered or a fault reached a handler".into()
    }
    fn assumptions(&self) -> Vec<String> {
        vec![
            "every control scenario lives inside one top-level form (what invoking a continuation from a later form re-runs is not specified)".into(),
            "that arbitrary programs' locals and temporaries are restored by re-entry in general is a per-program fact and is not decided here".into(),
        ]
    }
    fn components(&self) -> Value {
        json!({"real": ["VM", "continuations (open/closed marks)", "dynamic-wind", "with-handler (reset/shift over the meta-continuation)", "JIT (per run on/off)", "collector"],
               "simulated": ["where an error is raised (armed fault point)", "host function errors", "collection timing"]})
    }
}

fn collect_faults(e: &Value, out: &mut Vec<i64>) {
    if let Some(a) = e.as_array() {
        if a.first().and_then(|x| x.as_str()) == Some("fault") {
            out.push(a[1].as_i64().unwrap());
        }
        for c in a.iter().skip(1) {
            if c.is_array() {
                collect_faults(c, out);
            }
        }
    }
}

/// Is fault point `f` inside the handler body of a with-handler that is itself
/// (dynamically) inside the protected expression of another with-handler?
fn fault_in_nested_handler_body(e: &Value, f: i64, handler_depth: u32, in_hbody_of_nested: bool) -> bool {
    let a = match e.as_array() {
        Some(a) => a,
        None => return false,
    };
    match a[0].as_str().unwrap_or("") {
        "boom" => in_hbody_of_nested,
        "fault" => {
            if a[1].as_i64() == Some(f) && in_hbody_of_nested {
                return true;
            }
            fault_in_nested_handler_body(&a[2], f, handler_depth, in_hbody_of_nested)
        }
        "handle" => {
            // a[2] = handler body, a[3] = protected expression
            fault_in_nested_handler_body(&a[2], f, handler_depth, in_hbody_of_nested || handler_depth >= 1)
                || fault_in_nested_handler_body(&a[3], f, handler_depth + 1, in_hbody_of_nested)
        }
        _ => a.iter().skip(1).any(|c| c.is_array() && fault_in_nested_handler_body(c, f, handler_depth, in_hbody_of_nested)),
    }
}

/// Does the tree contain an escape to a continuation that was captured inside
/// the protected expression of a with-handler, from inside the protected
/// expression of a further with-handler nested in that call/cc?
/// `path`: for every enclosing node, ("handle-protected") or ("callcc", id).
fn escape_from_nested_handler(e: &Value, path: &mut Vec<(u8, i64)>) -> bool {
    let a = match e.as_array() {
        Some(a) => a,
        None => return false,
    };
    match a[0].as_str().unwrap_or("") {
        "escape" => {
            let c = a[1].as_i64().unwrap();
            // position of the target call/cc on the path
            if let Some(pos) = path.iter().rposition(|p| p.0 == 1 && p.1 == c) {
                let outer = path[..pos].iter().filter(|p| p.0 == 0).count();
                let inner = path[pos + 1..].iter().filter(|p| p.0 == 0).count();
                return outer >= 1 && inner >= 1;
            }
            false
        }
        "handle" => {
            // the handler body runs outside the protected extent
            let in_body = escape_from_nested_handler(&a[2], path);
            path.push((0, 0));
            let in_prot = escape_from_nested_handler(&a[3], path);
            path.pop();
            in_body || in_prot
        }
        "callcc" => {
            path.push((1, a[1].as_i64().unwrap()));
            let r = escape_from_nested_handler(&a[2], path);
            path.pop();
            r
        }
        _ => a.iter().skip(1).any(|c| c.is_array() && escape_from_nested_handler(c, path)),
    }
}

/// Does the tree contain an escape out of the protected expression of a
/// with-handler to a call/cc that lies inside a native callback (`xduce`) which
/// itself runs inside the *body* of an outer handler? (recorded defect: the
/// handler body runs under the meta-continuation of the outer with-handler and
/// the callback re-enters the VM from Rust)
fn escape_under_handler_in_callback_in_handler_body(e: &Value, path: &mut Vec<(u8, i64)>) -> bool {
    let a = match e.as_array() {
        Some(a) => a,
        None => return false,
    };
    match a[0].as_str().unwrap_or("") {
        "escape" => {
            let c = a[1].as_i64().unwrap();
            if let Some(pos) = path.iter().rposition(|p| p.0 == 1 && p.1 == c) {
                let inner_handler = path[pos + 1..].iter().any(|p| p.0 == 0);
                let body_pos = path[..pos].iter().position(|p| p.0 == 3);
                let callback_in_body = match body_pos {
                    Some(b) => path[b + 1..pos].iter().any(|p| p.0 == 2),
                    None => false,
                };
                return inner_handler && callback_in_body;
            }
            false
        }
        "handle" => {
            path.push((3, 0));
            let in_body = escape_under_handler_in_callback_in_handler_body(&a[2], path);
            path.pop();
            path.push((0, 0));
            let in_prot = escape_under_handler_in_callback_in_handler_body(&a[3], path);
            path.pop();
            in_body || in_prot
        }
        "xduce" => {
            path.push((2, 0));
            let r = escape_under_handler_in_callback_in_handler_body(&a[1], path);
            path.pop();
            r
        }
        "callcc" => {
            path.push((1, a[1].as_i64().unwrap()));
            let r = escape_under_handler_in_callback_in_handler_body(&a[2], path);
            path.pop();
            r
        }
        _ => a.iter().skip(1).any(|c| c.is_array() && escape_under_handler_in_callback_in_handler_body(c, path)),
    }
}

/// Does the tree contain an escape to a continuation captured outside a native
/// callback (`xduce`) from inside that callback?
fn escape_crosses_native_callback(e: &Value, path: &mut Vec<(u8, i64)>) -> bool {
    let a = match e.as_array() {
        Some(a) => a,
        None => return false,
    };
    match a[0].as_str().unwrap_or("") {
        "escape" => {
            let c = a[1].as_i64().unwrap();
            if let Some(pos) = path.iter().rposition(|p| p.0 == 1 && p.1 == c) {
                return path[pos + 1..].iter().any(|p| p.0 == 2);
            }
            false
        }
        "xduce" => {
            path.push((2, 0));
            let r = escape_crosses_native_callback(&a[1], path);
            path.pop();
            r
        }
        "callcc" => {
            path.push((1, a[1].as_i64().unwrap()));
            let r = escape_crosses_native_callback(&a[2], path);
            path.pop();
            r
        }
        _ => a.iter().skip(1).any(|c| c.is_array() && escape_crosses_native_callback(c, path)),
    }
}

/// Every escape refers to a call/cc that encloses it (handler bodies do not
/// see the continuations of the protected expression's surroundings).
fn escapes_ok(e: &Value, env: &mut Vec<i64>) -> bool {
    let a = match e.as_array() {
        Some(a) => a,
        None => return true,
    };
    match a[0].as_str().unwrap_or("") {
        "escape" => env.contains(&a[1].as_i64().unwrap()),
        "callcc" => {
            env.push(a[1].as_i64().unwrap());
            let r = escapes_ok(&a[2], env);
            env.pop();
            r
        }
        "handle" => {
            let mut empty = Vec::new();
            escapes_ok(&a[2], &mut empty) && escapes_ok(&a[3], env)
        }
        _ => a.iter().skip(1).all(|c| !c.is_array() || escapes_ok(c, env)),
    }
}
