//! Names of the steel-core hook sites.
pub fn name(site: u32) -> String {
    steel::verif::site_name(site).to_string()
}
