//! Names of the steel-core hook sites (filled in with the steel-core hooks).
pub fn name(site: u32) -> String {
    format!("{}", site)
}
