//! C08 (second scenario) — delimited control and multi-shot re-entry.
//!
//! Generated expression trees over integers with `reset`, `shift` (the captured
//! continuation applied zero, one or several times, also nested and from inside
//! another captured continuation), pending temporaries in argument position
//! (`(+ a b c)`), `let`-bound locals, conditionals, trace points (so re-executed
//! pending work shows), explicit and forced collections while continuations
//! are open, both tiers, and a fault raised at a seeded fault point with the
//! whole tree inside one `with-handler`.
//!
//! Steel builds `reset`/`shift` from `call/cc` plus a meta-continuation, so
//! every application of a `shift`-captured continuation re-enters a `call/cc`
//! continuation from outside its extent: "invoking a captured continuation any
//! number of times ... resumes the computation with the same pending work,
//! local variable values and argument temporaries".
//!
//! Oracle: a continuation-passing evaluator of the same tree (static
//! `shift`/`reset` semantics, left-to-right evaluation) gives the exact value
//! and the exact trace; with a fault armed the handler's value and the trace up
//! to the fault.

use crate::report;
use crate::rng::Rng;
use crate::runner::{Scenario, Spec};
use crate::vmh;
use serde_json::{json, Value};
use std::collections::HashMap;
use std::rc::Rc;

pub struct C08D;

const PRELUDE: &str = r#"
(define tr (box '()))
(define (trace! x) (set-box! tr (cons x (unbox tr))) 0)
(define (show) (let ((r (reverse (unbox tr)))) (set-box! tr '()) r))
(define armed (box -1))
(define (fault-point! f) (if (= f (unbox armed)) (error "injected") 0))
"#;

// ---------------------------------------------------------------------------
// generator

struct G<'a> {
    rng: &'a mut Rng,
    next_id: i64,
    faults: Vec<i64>,
    /// continuation variables in scope
    ks: Vec<i64>,
    /// value variables in scope
    vars: Vec<i64>,
    in_reset: u32,
    shifts: u32,
}

impl<'a> G<'a> {
    fn id(&mut self) -> i64 {
        self.next_id += 1;
        self.next_id
    }
    fn leaf(&mut self) -> Value {
        match self.rng.below(6) {
            0 if !self.vars.is_empty() => json!(["var", *self.rng.pick(&self.vars)]),
            1 if !self.ks.is_empty() => {
                let k = *self.rng.pick(&self.ks);
                json!(["k", k, ["n", self.rng.range(1, 9)]])
            }
            2 => {
                let f = self.id();
                self.faults.push(f);
                json!(["fault", f, ["n", self.rng.range(1, 9)]])
            }
            _ => json!(["n", self.rng.range(1, 9)]),
        }
    }
    fn gen(&mut self, depth: u32) -> Value {
        if depth == 0 {
            return self.leaf();
        }
        match self.rng.below(20) {
            0 | 1 => json!(["add", self.gen(depth - 1), self.gen(depth - 1)]),
            2 | 3 => json!(["add3", self.gen(depth - 1), self.gen(depth - 1), self.gen(depth - 1)]),
            4 => json!(["tr", self.id(), self.gen(depth - 1)]),
            5 | 6 => {
                let v = self.id();
                let a = self.gen(depth - 1);
                self.vars.push(v);
                let b = self.gen(depth - 1);
                self.vars.pop();
                json!(["let", v, a, b])
            }
            7 => json!(["if", self.gen(depth - 1), self.gen(depth - 1), self.gen(depth - 1)]),
            8 | 9 | 10 => {
                self.in_reset += 1;
                // a continuation captured outside this reset may still be applied inside
                let b = self.gen(depth - 1);
                self.in_reset -= 1;
                json!(["reset", b])
            }
            11 | 12 | 13 | 14 if self.in_reset > 0 && self.shifts < 5 => {
                let k = self.id();
                self.shifts += 1;
                self.ks.push(k);
                let b = self.gen(depth - 1);
                self.ks.pop();
                json!(["shift", k, b])
            }
            15 | 16 if !self.ks.is_empty() => {
                let k = *self.rng.pick(&self.ks);
                json!(["k", k, self.gen(depth - 1)])
            }
            17 => {
                let f = self.id();
                self.faults.push(f);
                json!(["fault", f, self.gen(depth - 1)])
            }
            18 => json!(["gc", self.gen(depth - 1)]),
            _ => json!(["tr", self.id(), self.gen(depth - 1)]),
        }
    }
}

fn gen_workload(rng: &mut Rng, thorough: bool) -> Value {
    let jit = rng.chance(1, 2);
    let gc = *rng.pick(&[(0u64, 1u64), (0, 1), (1, 8), (1, 1)]);
    let depth = rng.range(2, if thorough { 7 } else { 6 }) as u32;
    let mut g = G { rng, next_id: 0, faults: vec![], ks: vec![], vars: vec![], in_reset: 0, shifts: 0 };
    // most trees start with a reset so that shifts are possible near the top
    let tree = if g.rng.chance(3, 4) {
        g.in_reset = 1;
        let b = g.gen(depth);
        g.in_reset = 0;
        json!(["add", ["n", 1000], ["reset", b]])
    } else {
        g.gen(depth)
    };
    json!({"jit": jit, "gc": [gc.0, gc.1], "tree": tree, "faults": g.faults})
}

fn render(e: &Value) -> String {
    let a = e.as_array().unwrap();
    match a[0].as_str().unwrap() {
        "n" => a[1].to_string(),
        "var" => format!("x{}", a[1]),
        "add" => format!("(+ {} {})", render(&a[1]), render(&a[2])),
        "add3" => format!("(+ {} {} {})", render(&a[1]), render(&a[2]), render(&a[3])),
        "tr" => format!("(begin (trace! {}) {})", a[1], render(&a[2])),
        "let" => format!("(let ((x{} {})) {})", a[1], render(&a[2]), render(&a[3])),
        "if" => format!("(if (> {} 4) {} {})", render(&a[1]), render(&a[2]), render(&a[3])),
        "reset" => format!("(reset {})", render(&a[1])),
        "shift" => format!("(shift k{} {})", a[1], render(&a[2])),
        "k" => format!("(k{} {})", a[1], render(&a[2])),
        "fault" => format!("(begin (fault-point! {}) {})", a[1], render(&a[2])),
        "gc" => format!("(begin (#%gc-collect) {})", render(&a[1])),
        x => panic!("HARNESS unknown node {}", x),
    }
}

// ---------------------------------------------------------------------------
// model: continuation-passing evaluator with a meta-continuation

#[derive(Clone, Debug, PartialEq)]
enum R {
    Val(i64),
    Fault,
    Fuel,
}

struct St {
    trace: Vec<i64>,
    armed: i64,
    fuel: u64,
}

type MK = Rc<dyn Fn(i64, &mut St) -> R>;
type K = Rc<dyn Fn(i64, MK, &mut St) -> R>;
type KF = Rc<dyn Fn(i64, K, MK, &mut St) -> R>;

#[derive(Clone, Default)]
struct Env {
    vals: HashMap<i64, i64>,
    ks: HashMap<i64, KF>,
}

fn theta() -> K {
    Rc::new(|v, mk: MK, st: &mut St| mk(v, st))
}

fn eval(e: &Value, env: Env, k: K, mk: MK, st: &mut St) -> R {
    if st.fuel == 0 {
        return R::Fuel;
    }
    st.fuel -= 1;
    let a = e.as_array().unwrap();
    match a[0].as_str().unwrap() {
        "n" => k(a[1].as_i64().unwrap(), mk, st),
        "var" => k(*env.vals.get(&a[1].as_i64().unwrap()).expect("HARNESS unbound var"), mk, st),
        "add" => {
            let b = a[2].clone();
            let env2 = env.clone();
            eval(
                &a[1],
                env,
                Rc::new(move |va, mk1, st| {
                    let k = k.clone();
                    eval(&b, env2.clone(), Rc::new(move |vb, mk2, st| k(va + vb, mk2, st)), mk1, st)
                }),
                mk,
                st,
            )
        }
        "add3" => {
            let b = a[2].clone();
            let c = a[3].clone();
            let env2 = env.clone();
            eval(
                &a[1],
                env,
                Rc::new(move |va, mk1, st| {
                    let k = k.clone();
                    let c = c.clone();
                    let env3 = env2.clone();
                    eval(
                        &b,
                        env2.clone(),
                        Rc::new(move |vb, mk2, st| {
                            let k = k.clone();
                            eval(&c, env3.clone(), Rc::new(move |vc, mk3, st| k(va + vb + vc, mk3, st)), mk2, st)
                        }),
                        mk1,
                        st,
                    )
                }),
                mk,
                st,
            )
        }
        "tr" => {
            st.trace.push(a[1].as_i64().unwrap());
            eval(&a[2], env, k, mk, st)
        }
        "gc" => eval(&a[1], env, k, mk, st),
        "fault" => {
            if a[1].as_i64().unwrap() == st.armed {
                return R::Fault;
            }
            eval(&a[2], env, k, mk, st)
        }
        "let" => {
            let id = a[1].as_i64().unwrap();
            let body = a[3].clone();
            let env2 = env.clone();
            eval(
                &a[2],
                env,
                Rc::new(move |va, mk1, st| {
                    let mut e3 = env2.clone();
                    e3.vals.insert(id, va);
                    eval(&body, e3, k.clone(), mk1, st)
                }),
                mk,
                st,
            )
        }
        "if" => {
            let t = a[2].clone();
            let f = a[3].clone();
            let env2 = env.clone();
            eval(
                &a[1],
                env,
                Rc::new(move |vc, mk1, st| eval(if vc > 4 { &t } else { &f }, env2.clone(), k.clone(), mk1, st)),
                mk,
                st,
            )
        }
        "reset" => {
            let mk2: MK = Rc::new(move |v, st| k(v, mk.clone(), st));
            eval(&a[1], env, theta(), mk2, st)
        }
        "shift" => {
            let id = a[1].as_i64().unwrap();
            let kf: KF = Rc::new(move |v, k2: K, mk2: MK, st| {
                let mk3: MK = Rc::new(move |w, st| k2(w, mk2.clone(), st));
                k(v, mk3, st)
            });
            let mut e2 = env;
            e2.ks.insert(id, kf);
            eval(&a[2], e2, theta(), mk, st)
        }
        "k" => {
            let kf = env.ks.get(&a[1].as_i64().unwrap()).expect("HARNESS unbound k").clone();
            eval(&a[2], env, Rc::new(move |v, mk1, st| kf(v, k.clone(), mk1, st)), mk, st)
        }
        x => panic!("HARNESS unknown node {}", x),
    }
}

fn model(tree: &Value, armed: i64) -> (R, Vec<i64>) {
    let mut st = St { trace: vec![], armed, fuel: 200_000 };
    let r = eval(tree, Env::default(), Rc::new(|v, _mk, _st| R::Val(v)), Rc::new(|v, _st| R::Val(v)), &mut st);
    (r, st.trace)
}

/// Is fault point `f` (lexically) inside a `reset`?
fn fault_inside_reset(e: &Value, f: i64, inside: bool) -> bool {
    let a = e.as_array().unwrap();
    let tag = a[0].as_str().unwrap();
    if tag == "fault" && a[1].as_i64() == Some(f) {
        return inside;
    }
    let inner = inside || tag == "reset";
    a.iter().skip(1).any(|c| c.is_array() && c.as_array().map(|x| x.first().map(|t| t.is_string()).unwrap_or(false)).unwrap_or(false) && fault_inside_reset(c, f, inner))
}

fn count(e: &Value, tag: &str) -> u64 {
    let a = e.as_array().unwrap();
    let mut n = if a[0].as_str() == Some(tag) { 1 } else { 0 };
    for c in a.iter().skip(1) {
        if c.is_array() && c.as_array().map(|x| x.first().map(|t| t.is_string()).unwrap_or(false)).unwrap_or(false) {
            n += count(c, tag);
        }
    }
    n
}

impl Scenario for C08D {
    fn name(&self) -> &'static str {
        "c08-delimited"
    }
    fn property(&self) -> &'static str {
        "C08"
    }
    fn setup(&self) {
        vmh::build_prototypes(true, true);
    }
    fn default_runs(&self, thorough: bool) -> u64 {
        if thorough { 300_000 } else { 5_000 }
    }
    fn timeout_ms(&self) -> u64 {
        30_000
    }
    fn shrink(&self, w: &Value) -> Vec<Value> {
        // replace a subtree by one of its children or by a number
        fn variants(e: &Value) -> Vec<Value> {
            let a = e.as_array().unwrap();
            let tag = a[0].as_str().unwrap();
            let mut out = Vec::new();
            if tag != "n" {
                out.push(json!(["n", 3]));
            }
            let is_node = |c: &Value| c.is_array() && c.as_array().map(|x| x.first().map(|t| t.is_string()).unwrap_or(false)).unwrap_or(false);
            // hoisting a child is only sound when it binds nothing the child uses
            if matches!(tag, "add" | "add3" | "tr" | "gc" | "fault" | "if") {
                for c in a.iter().skip(1) {
                    if is_node(c) {
                        out.push(c.clone());
                    }
                }
            }
            for (i, c) in a.iter().enumerate().skip(1) {
                if is_node(c) {
                    for v in variants(c) {
                        let mut b = a.clone();
                        b[i] = v;
                        out.push(Value::Array(b));
                    }
                }
            }
            out
        }
        fn closed(e: &Value, vars: &mut Vec<i64>, ks: &mut Vec<i64>, in_reset: bool) -> bool {
            let a = e.as_array().unwrap();
            match a[0].as_str().unwrap() {
                "n" => true,
                "var" => vars.contains(&a[1].as_i64().unwrap()),
                "k" => ks.contains(&a[1].as_i64().unwrap()) && closed(&a[2], vars, ks, in_reset),
                "let" => {
                    if !closed(&a[2], vars, ks, in_reset) {
                        return false;
                    }
                    vars.push(a[1].as_i64().unwrap());
                    let r = closed(&a[3], vars, ks, in_reset);
                    vars.pop();
                    r
                }
                "shift" => {
                    if !in_reset {
                        return false;
                    }
                    ks.push(a[1].as_i64().unwrap());
                    let r = closed(&a[2], vars, ks, in_reset);
                    ks.pop();
                    r
                }
                "reset" => closed(&a[1], vars, ks, true),
                "tr" | "fault" => closed(&a[2], vars, ks, in_reset),
                _ => a.iter().skip(1).all(|c| !c.is_array() || closed(c, vars, ks, in_reset)),
            }
        }
        let mut out = Vec::new();
        for t in variants(&w["tree"]).into_iter().take(400) {
            if closed(&t, &mut vec![], &mut vec![], false) {
                let mut v = w.clone();
                v["tree"] = t;
                out.push(v);
            }
        }
        if w["gc"][0].as_u64().unwrap_or(0) > 0 {
            let mut v = w.clone();
            v["gc"] = json!([0, 1]);
            out.push(v);
        }
        if w["jit"] == true {
            let mut v = w.clone();
            v["jit"] = json!(false);
            out.push(v);
        }
        out
    }

    fn child(&self, spec: &Spec) {
        let mut wrng = Rng::derive(spec.seed, spec.index, 1);
        let w = if spec.overrides.is_null() { gen_workload(&mut wrng, spec.tier_thorough) } else { spec.overrides.clone() };
        report::set_workload(w.clone());
        if spec.gen_only {
            return;
        }
        let mut faults = vmh::default_faults(spec.seed, spec.index);
        faults.gc_num = w["gc"][0].as_u64().unwrap_or(0);
        faults.gc_den = w["gc"][1].as_u64().unwrap_or(1).max(1);
        faults.heap_chunk = 256;
        let jit = w["jit"].as_bool().unwrap_or(true);
        let tier = if jit { "jit" } else { "nojit" };
        let mut engine = vmh::start(
            spec,
            vmh::VmOptions {
                property: "C08",
                jit,
                faults,
                yield_at_dispatch: false,
                max_steps: 100_000_000,
                expected_steps: 3000,
                on_stop: report::stop_is_harness_error,
                panic_class: |m| vmh::panic_signature("C08/delimited", m),
            },
        );
        vmh::set_stale_is_violation(false);
        vmh::set_context("prelude");
        if let Err(e) = vmh::eval(&mut engine, PRELUDE) {
            report::harness_error(format!("prelude failed: {}", e));
        }
        let tree = w["tree"].clone();
        let src = format!("(with-handler (lambda (e) (begin (trace! 9999) -1)) {})", render(&tree));
        let mut armings: Vec<i64> = vec![-1];
        armings.extend(w["faults"].as_array().into_iter().flatten().filter_map(|f| f.as_i64()));
        // faults inside a reset last: they run into a recorded defect, which ends the run
        armings.sort_by_key(|f| if *f >= 0 && fault_inside_reset(&tree, *f, false) { 1 } else { 0 });
        let shifts = count(&tree, "shift");
        let kapps = count(&tree, "k");
        report::set_nontrivial(shifts > 0);
        if kapps >= 2 {
            report::probe("continuation-applied-more-than-once-in-tree");
        }
        for armed in armings {
            let (exp, mut exp_trace) = model(&tree, armed);
            if exp == R::Fuel {
                report::probe("model-out-of-fuel");
                continue;
            }
            let class = if armed >= 0 && exp == R::Fault && fault_inside_reset(&tree, armed, false) {
                "error-inside-reset-under-with-handler"
            } else {
                "general"
            };
            vmh::set_context(&format!("delimited/{}/{}", tier, class));
            let _ = vmh::eval(&mut engine, &format!("(set-box! armed {})\n(show)", armed));
            let res = vmh::eval(&mut engine, &src);
            let got_trace = vmh::eval(&mut engine, "(show)").map(|v| v.last().cloned().unwrap_or_default());
            let exp_val = match exp {
                R::Val(v) => v,
                _ => {
                    exp_trace.push(9999);
                    report::fault("error@fault-point");
                    -1
                }
            };
            let exp_trace_s = format!("({})", exp_trace.iter().map(|x| x.to_string()).collect::<Vec<_>>().join(" "));
            match &res {
                Ok(r) => {
                    if r.last().map(|s| s.as_str()) != Some(exp_val.to_string().as_str()) {
                        report::violation(
                            &format!("C08/delimited/{}/{}/wrong-value", tier, class),
                            format!("armed={} {} evaluated to {:?}, the model says {} (trace {:?}, model trace {})", armed, src, r.last(), exp_val, got_trace, exp_trace_s),
                        );
                    }
                }
                Err(e) => report::violation(
                    &format!("C08/delimited/{}/{}/unexpected-error", tier, class),
                    format!("armed={} {} failed: {}; the model says {}", armed, src, e.chars().take(160).collect::<String>(), exp_val),
                ),
            }
            match got_trace {
                Ok(t) if t == exp_trace_s => {}
                other => report::violation(
                    &format!("C08/delimited/{}/{}/trace", tier, class),
                    format!("armed={} {}: trace {:?}, the model says {}", armed, src, other, exp_trace_s),
                ),
            }
            let st = engine.verif_stack_state();
            if st.stack != 0 || st.frames != 0 {
                report::violation(
                    &format!("C08/delimited/{}/{}/stack-residue", tier, class),
                    format!("armed={} {}: {:?}", armed, src, st),
                );
            }
        }
        // the engine is usable and the meta-continuation is back to its initial state
        vmh::set_context(&format!("delimited/{}/after", tier));
        match vmh::eval(&mut engine, "(set-box! armed -1)\n(+ 1 (reset (+ 2 (shift k (k (k 3))))))") {
            Ok(v) if v.last().map(|s| s.as_str()) == Some("8") => {}
            other => report::violation(
                &format!("C08/delimited/{}/engine-state-after", tier),
                format!("probe gave {:?}", other.map_err(|e| e.chars().take(120).collect::<String>())),
            ),
        }
    }

    fn rule(&self) -> String {
        "seeded search over expression trees (depth 2-6) of reset / shift (captured continuation applied 0..n times, nested, applied inside other captured continuations and inside inner resets) / two- and three-argument additions (pending temporaries) / let / if / trace points / explicit collections, each evaluated with no fault and once per fault point (Scheme error) inside one with-handler; forced collections up to every allocation; both tiers; oracle: a continuation-passing evaluator with a meta-continuation (static shift/reset, left-to-right) gives the exact value and trace; non-trivial = the tree contains a shift".to_string()
    }
    fn assumptions(&self) -> Vec<String> {
        vec!["dynamic-wind inside reset/shift is not generated (how wind thunks interact with delimited continuations is not specified by the property)".into()]
    }
    fn components(&self) -> Value {
        json!({"real": ["call/cc capture and multi-shot reinstatement", "reset/shift/with-handler from the prelude (meta-continuation in thread-local storage)", "collector", "JIT (both tiers)"],
               "simulated": ["collection timing", "fault arrival (which fault point raises)"]})
    }
}
