//! Child side: counters collected during one run and the report sent to the
//! parent through a pipe when the run ends (normally or with a violation).

use crate::sched;
use serde_json::{json, Value};
use std::collections::BTreeMap;
use std::sync::atomic::{AtomicBool, AtomicI32, Ordering};
use std::sync::Mutex;

pub static REPORT_FD: AtomicI32 = AtomicI32::new(-1);
static DONE: AtomicBool = AtomicBool::new(false);

struct State {
    faults: BTreeMap<String, u64>,
    probes: BTreeMap<String, u64>,
    workload: Value,
    extra: BTreeMap<String, Value>,
    nontrivial: bool,
    strategy: String,
}

static STATE: Mutex<Option<State>> = Mutex::new(None);

fn with<R>(f: impl FnOnce(&mut State) -> R) -> R {
    let mut g = match STATE.lock() {
        Ok(g) => g,
        Err(p) => p.into_inner(),
    };
    if g.is_none() {
        *g = Some(State {
            faults: BTreeMap::new(),
            probes: BTreeMap::new(),
            workload: Value::Null,
            extra: BTreeMap::new(),
            nontrivial: false,
            strategy: String::new(),
        });
    }
    f(g.as_mut().unwrap())
}

pub fn fault(kind: &str) {
    with(|s| *s.faults.entry(kind.to_string()).or_insert(0) += 1);
}

pub fn fault_n(kind: &str, n: u64) {
    with(|s| *s.faults.entry(kind.to_string()).or_insert(0) += n);
}

pub fn probe(name: &str) {
    with(|s| *s.probes.entry(name.to_string()).or_insert(0) += 1);
}

pub fn probe_n(name: &str, n: u64) {
    with(|s| *s.probes.entry(name.to_string()).or_insert(0) += n);
}

pub fn set_workload(v: Value) {
    with(|s| s.workload = v);
}

pub fn set_extra(k: &str, v: Value) {
    with(|s| {
        s.extra.insert(k.to_string(), v);
    });
}

pub fn set_nontrivial(b: bool) {
    with(|s| s.nontrivial = b);
}

pub fn set_strategy(d: String) {
    with(|s| s.strategy = d);
}

pub fn rle(decisions: &[u8]) -> Value {
    let mut out: Vec<Value> = Vec::new();
    let mut i = 0;
    while i < decisions.len() {
        let mut j = i;
        while j < decisions.len() && decisions[j] == decisions[i] {
            j += 1;
        }
        out.push(json!([decisions[i], j - i]));
        i = j;
    }
    Value::Array(out)
}

pub fn unrle(v: &Value) -> Vec<u8> {
    let mut out = Vec::new();
    if let Some(a) = v.as_array() {
        for p in a {
            let t = p[0].as_u64().unwrap_or(0) as u8;
            let n = p[1].as_u64().unwrap_or(0) as usize;
            out.extend(std::iter::repeat(t).take(n));
        }
    }
    out
}

fn emit(outcome: &str, signature: &str, detail: &str) -> ! {
    if DONE.swap(true, Ordering::SeqCst) {
        // a second report (e.g. a panic while reporting): just stop this thread
        loop {
            std::thread::park();
        }
    }
    let mut v = with(|s| {
        json!({
            "outcome": outcome,
            "signature": signature,
            "detail": detail,
            "faults": s.faults,
            "probes": s.probes,
            "workload": s.workload,
            "extra": s.extra,
            "nontrivial": s.nontrivial,
            "strategy": s.strategy,
        })
    });
    let sched_part = sched::with_inner(|i| {
        let tail: Vec<String> = i
            .tail
            .iter()
            .map(|e| {
                let w = match e.what {
                    0 => "",
                    1 => " BLOCKED",
                    2 => " unblocked",
                    3 => " SPIN",
                    _ => " note",
                };
                if e.arg != 0 {
                    format!(
                        "#{} t{} {}{} arg={:#x}",
                        e.step,
                        e.tid,
                        crate::sites::name(e.site),
                        w,
                        e.arg
                    )
                } else {
                    format!("#{} t{} {}{}", e.step, e.tid, crate::sites::name(e.site), w)
                }
            })
            .collect();
        let full: Option<Vec<String>> = i.full_trace.as_ref().map(|f| {
            f.iter()
                .map(|e| format!("{} {} {} {} {}", e.step, e.tid, e.site, e.what, e.arg))
                .collect()
        });
        json!({
            "steps": i.steps,
            "sim_time": i.now(),
            "clock_jumps": i.clock_jumps,
            "timeouts_fired": i.timeouts_fired,
            "polls": i.polls,
            "switches": i.switches,
            "trace_fp": format!("{:016x}", i.trace_fp.0),
            "sched_fp": format!("{:016x}", i.sched_fp.0),
            "decisions": rle(&i.decisions),
            "diverged": i.diverged,
            "max_live": i.max_live,
            "threads": i.nthreads,
            "tail": tail,
            "full_trace": full,
            "thread_states": sched::describe_threads(i),
        })
    });
    if let Some(sp) = sched_part {
        if let (Some(o), Some(s)) = (v.as_object_mut(), sp.as_object()) {
            for (k, val) in s {
                o.insert(k.clone(), val.clone());
            }
        }
    }
    let bytes = serde_json::to_vec(&v).unwrap();
    let fd = REPORT_FD.load(Ordering::SeqCst);
    if fd >= 0 {
        let mut off = 0;
        while off < bytes.len() {
            let n = unsafe {
                libc::write(
                    fd,
                    bytes[off..].as_ptr() as *const libc::c_void,
                    bytes.len() - off,
                )
            };
            if n <= 0 {
                break;
            }
            off += n as usize;
        }
        unsafe { libc::close(fd) };
    } else {
        println!("{}", String::from_utf8_lossy(&bytes));
    }
    unsafe { libc::_exit(0) }
}

pub fn violation(signature: &str, detail: String) -> ! {
    emit("violation", signature, &detail)
}

pub fn finish_ok() -> ! {
    emit("ok", "", "")
}

pub fn harness_error(msg: String) -> ! {
    emit("harness_error", "harness", &msg)
}

/// Scheduler stop handler used by scenarios for which a deadlock or an
/// exhausted step budget is a harness problem, not a property violation.
pub fn stop_is_harness_error(s: sched::Stop) -> ! {
    match s {
        sched::Stop::Deadlock(d) => harness_error(format!("unexpected deadlock: {}", d)),
        sched::Stop::Budget(d) => harness_error(format!("step budget exceeded: {}", d)),
        sched::Stop::ReplayDiverged(d) => emit("replay_diverged", "harness", &d),
    }
}

/// Install a panic hook that turns any panic in the child into a report.
/// `as_violation(msg)` returns Some(signature) when the panic is a property
/// violation, None when it is a harness error.
pub fn install_panic_hook(as_violation: fn(&str) -> Option<String>) {
    std::panic::set_hook(Box::new(move |info| {
        let msg = if let Some(s) = info.payload().downcast_ref::<&str>() {
            s.to_string()
        } else if let Some(s) = info.payload().downcast_ref::<String>() {
            s.clone()
        } else {
            "<non-string panic>".to_string()
        };
        let loc = info
            .location()
            .map(|l| format!("{}:{}", l.file(), l.line()))
            .unwrap_or_default();
        let bt = std::backtrace::Backtrace::force_capture().to_string();
        let frames: Vec<&str> = bt
            .lines()
            .filter(|l| l.contains("steel") && !l.contains("steelsim::report"))
            .take(12)
            .collect();
        let detail = format!("panic at {}: {}\n{}", loc, msg, frames.join("\n"));
        // the innermost function of the code under test (line numbers move with
        // the hooks, function names do not)
        let inner = frames
            .iter()
            .find(|l| l.contains("steel::") && !l.contains("steelsim"))
            .map(|l| l.trim().splitn(2, ": ").nth(1).unwrap_or("").to_string())
            .unwrap_or_default();
        let msg = if inner.is_empty() { msg } else { format!("{} @{}", msg, inner) };
        match as_violation(&msg) {
            Some(sig) => violation(&sig, detail),
            None => harness_error(detail),
        }
    }));
}
