/* Deterministic entropy for simulation workers: getrandom()/getentropy()
 * return a fixed byte stream, so std's RandomState (hash-map iteration order)
 * is the same in every process. Loaded with LD_PRELOAD by the harness only. */
#define _GNU_SOURCE
#include <stddef.h>
#include <stdint.h>
#include <sys/types.h>

static uint64_t state = 0x9E3779B97F4A7C15ull;

static uint64_t next(void) {
    uint64_t z = (state += 0x9E3779B97F4A7C15ull);
    z = (z ^ (z >> 30)) * 0xBF58476D1CE4E5B9ull;
    z = (z ^ (z >> 27)) * 0x94D049BB133111EBull;
    return z ^ (z >> 31);
}

static void fill(unsigned char *p, size_t n) {
    while (n) {
        uint64_t v = next();
        for (int i = 0; i < 8 && n; i++, n--) *p++ = (unsigned char)(v >> (8 * i));
    }
}

ssize_t getrandom(void *buf, size_t buflen, unsigned int flags) {
    (void)flags;
    fill((unsigned char *)buf, buflen);
    return (ssize_t)buflen;
}

int getentropy(void *buf, size_t buflen) {
    fill((unsigned char *)buf, buflen);
    return 0;
}
